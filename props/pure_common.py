"""Shared by the tie-T properties (C16, C17, C19): build the pure harness from /repo, run the
translation-validation differential (compiled C vs generated Lean definitions) and the sweeps."""
import os, sys
sys.path.insert(0, os.path.join(os.path.dirname(os.path.abspath(__file__)), '..', 'tools'))
import vlib, regen

SRC = lambda: [os.path.join(vlib.VERIF, 'harness/pure.c')]
FLAGS = lambda: ['-I' + os.path.join(vlib.REPO, 'librfn'), '-lpthread']


def regen_units(ctx, units):
    errs = regen.regen(units)
    for u, e in errs:
        ctx.broken.append(f'tie T: tools/c2lean.py cannot translate unit {u}: {e}')
    return not errs


def build(ctx, section):
    """section: PURE_BITS | PURE_RAND | PURE_ROTENC - only that unit's library sources are compiled into the harness"""
    exe, log = ctx.cc('pure', SRC(), FLAGS() + ['-D' + section])
    fast, log2 = ctx.cc('pure_fast', SRC(), FLAGS() + ['-O2', '-D' + section], san=False)
    if (not exe or not fast) and section == 'PURE_ROTENC':
        # the decoder's data representation changed: rebuild against the public interface only (ROTENC_VAR_INIT, rotenc_decode,
        # rotenc_count, rotenc_count14).  The per-step comparison with the generated definitions needs the fields, so the
        # correspondence counts as broken; the walks against the true position - the property itself - still run.
        exe, logb = ctx.cc('pure', SRC(), FLAGS() + ['-D' + section, '-DVERIF_BLACKBOX'])
        fast, logb2 = ctx.cc('pure_fast', SRC(), FLAGS() + ['-O2', '-D' + section, '-DVERIF_BLACKBOX'], san=False)
        if exe and fast:
            ctx.blackbox = True
            ctx.broken.append('correspondence: the pure harness no longer compiles against the decoder\'s data representation ('
                              + ' '.join(l.strip() for l in (log + log2).split('\n') if 'error' in l)[:300] + '); rebuilt against the public interface only')
            return exe, fast
    if not exe or not fast:
        raise vlib.Unbuildable('pure harness does not compile against /repo: ' + (log + log2)[-1500:])
    return exe, fast


def differential(ctx, exe, lines, engine):
    """run the same call lines through the compiled C and the generated Lean definitions.
    returns (c_out, lean_out) as lists; lean_out is None if the model driver is unavailable"""
    text = '\n'.join(lines) + '\n'
    rc, out, err = vlib.sh([exe, 'lines'], input=text, timeout=300)
    if rc != 0:
        ctx.notes.append('pure harness failed: ' + err[-800:])
    c_out = out.strip('\n').split('\n')
    lean_out = None
    if ctx.build_model():
        lean_out = ctx.run_model([engine], text).strip('\n').split('\n')
    return c_out, lean_out


def sweep(ctx, fast, what, nthr=16, timeout=1800):
    rc, out, err = vlib.sh([fast, 'sweep', what, str(nthr)], timeout=timeout)
    fails = [l[5:] for l in out.split('\n') if l.startswith('FAIL ')]
    oks = [l for l in out.split('\n') if l.startswith('OK ')]
    if rc != 0 and not fails:
        ctx.notes.append(f'sweep {what} crashed rc={rc}: {err[-500:]}')
        fails = [f'{what} sweep crashed (rc={rc})']
    n = int(oks[0].split()[1]) if oks else 0
    return fails, n

"""C17 — rand31_r is the Park–Miller minimal standard generator (tie T, kernel-only proof)."""
import json, re
import vlib
from props import pure_common as pc

META = {
    'engine': 'lean-T',
    'technique': 'Lean 4 kernel proof (omega + coprimality) about the BitVec definition regenerated from rand.c; iteration by induction',
    'level_text': 'For every state s in 1..2^31-2 the translated rand31_r returns and stores 16807*s mod (2^31-1), which is again in 1..2^31-2; '
                  'by induction every trajectory of any length stays in range and equals 16807^n*s mod p (never 0). Full period: 2^31-1 is prime (Lucas-Lehmer), '
                  '16807 has order 2^31-2 modulo it, so from every valid seed the state returns to the seed exactly at multiples of 2^31-2 (LibrfnMath/Period.lean, Mathlib).',
    'level_note': 'Trusted: Lean kernel (standard axioms only, also for the Mathlib-based period theorems); tools/c2lean.py + clang 14 typed AST, validated each run against compiled C on sampled states '
                  'and, in the thorough tier / on any break, by the exhaustive sweep of all 2^31-2 states against 64-bit arithmetic.',
    'design_ref': '§6 C17',
}
REQUIRED = ['Librfn.C17.rand31_spec', 'Librfn.C17.rand31_range', 'Librfn.C17.iterate_spec', 'Librfn.C17.order_16807', 'Librfn.C17.full_period', 'Librfn.C17.first_return']
P = 2147483647


def run(ctx):
    rng = vlib.Rng(ctx.seed)
    pc.regen_units(ctx, ['Rand'])
    ctx.prove(['Librfn.Props.C17', 'LibrfnMath.Period'], REQUIRED)
    exe, fast = pc.build(ctx, 'PURE_RAND')
    states = {1, 2, P - 1, P - 2, 65535, 65536, 65537, 0x7fff, 0x8000, 0xffff0000 & (P - 1), 127773, 127774, 16807, 1 << 30, (1 << 30) - 1}
    n = 2000 if ctx.tier == 'quick' else 50000
    while len(states) < n:
        states.add(1 + rng.below(P - 1))
    # trajectories too (state threading through *seedp)
    s = 1 + rng.below(P - 1)
    for _ in range(200):
        states.add(s); s = 16807 * s % P
    states = sorted(states)
    c_out, lean_out = pc.differential(ctx, exe, [f'rand31 {s}' for s in states], 'pure-rand')
    for i, s in enumerate(states):
        want = 16807 * s % P
        ctx.count(s)
        got = c_out[i] if i < len(c_out) else 'missing'
        if got != f'{want} {want}':
            ctx.violation({'obligation': 'rand31_r vs 16807*s mod (2^31-1)', 'state': s, 'expected': f'{want} {want}', 'observed': got}, key=f'rand31:{s}')
            break
        if lean_out is not None and (i >= len(lean_out) or lean_out[i] != got):
            ctx.broken.append(f'tie T translation validation: generated Lean rand31_r({s}) = {lean_out[i] if i < len(lean_out) else None}, compiled C = {got}')
            break
    ctx.cov['traces_validated_against_impl'] = len(states) if lean_out is not None else 0
    for s in states[:2] + states[-2:]:
        ctx.sample({'state': s, 'next': 16807 * s % P})
    if ctx.tier == 'thorough' or ctx.broken:
        fails, nn = pc.sweep(ctx, fast, 'rand31')
        ctx.cov['exhaustive_states'] = nn
        ctx.cov['exhaustive'] = not fails
        for f in fails[:1]:
            ctx.violation({'obligation': 'exhaustive sweep of all 2^31-2 states vs 64-bit arithmetic', 'failing_case': f}, key='sweep:' + f.split(' got=')[0])
    ctx.cov['rule'] = 'states: range ends, 16-bit split boundaries, Schrage constants, seeded random states and a 200-step trajectory; distinct = distinct state; each compared with 16807*s mod p (Python big ints) and with the generated Lean definition'
    ctx.assumptions.append(META['level_note'])


def replay(ctx, path):
    r = json.load(open(path))
    s = r.get('state')
    if s is None:
        m = re.match(r'rand31 (\d+)', r.get('failing_case', ''))
        if not m:
            print('replay names a broken obligation:', r.get('obligation')); return 1
        s = int(m.group(1))
    exe, _ = pc.build(ctx, 'PURE_RAND')
    rc, out, err = vlib.sh([exe, 'lines'], input=f'rand31 {s}\n')
    want = 16807 * s % P
    print(f'rand31_r({s}) -> {out.strip()} expected {want} {want}')
    return 0 if out.strip() == f'{want} {want}' else 1

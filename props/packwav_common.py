"""Shared machinery of the C12 / C13 / C14 checks (pack.c, wavheader.c).

* `judged(...)`: tie D with a *predicate* oracle.  vlib.correspond compares the implementation with an exact expected
  output; C13/C14 state requirements ("negative, or larger than sz, or the exact length") rather than exact outputs, so
  here the oracle is `judge(history, impl_output) -> None | Verdict`.  implementation fails the judge  -> VIOLATION with a
  shrunk replay; implementation passes the judge but differs from the Lean model -> broken correspondence
  (ctx.broken; `check` then reports `no-failing-input-found` unless a judged violation is found elsewhere).
* the WAV reference used by the judges (layout knowledge written from the RIFF/WAVE format and the property text, not
  from wavheader.c): header builder, "how many bytes does this header occupy" parser.
"""
import glob, hashlib, json, os
import vlib

PREFIX = ('reset',)


def hx(bs):
    return bytes(bs).hex() if len(bs) else '-'


def unhx(s):
    return b'' if s == '-' else bytes.fromhex(s)


class Verdict:
    def __init__(self, at, expected, observed, key, why):
        self.at, self.expected, self.observed, self.key, self.why = at, expected, observed, key, why


def run_impl(exe, hs, timeout=600):
    text = ''.join('\n'.join(list(PREFIX) + h) + '\n--\n' for h in hs)
    return vlib.split_histories(vlib.run_exe(exe if isinstance(exe, list) else [exe], text, timeout), '--')


def run_model(ctx, engine, hs, timeout=600):
    text = ''.join('\n'.join(list(PREFIX) + h) + '\n--\n' for h in hs)
    mo = ctx.run_model([engine], text, timeout).split('\n')
    if mo and mo[-1] == '':
        mo.pop()
    return vlib.split_histories(mo, '--')


def fault_verdicts(io, h=None):
    """a crash, sanitizer report, signal, stack exhaustion or hang of the implementation is a violation of any of the three
    properties; the op during which it happened is named"""
    for k, l in enumerate(io):
        if l.startswith('!!'):
            w = l.split()
            kind = w[1] if len(w) > 1 else '?'
            op = h[k].split()[0] if h is not None and k < len(h) else '?'
            if kind in ('HANG', 'TIMEOUT'):
                why = f'{op} does not terminate (no result within the per-call time limit)'
                key = 'nonterminating:' + op
            elif kind == 'SIGSEGV':
                why = f'{op} does not terminate normally: SIGSEGV (stack exhaustion by unbounded recursion, or a wild access)'
                key = 'fault:SIGSEGV:' + op
            else:
                why = f'{op} faulted: {l}'
                key = 'fault:' + kind + ':' + op
            return [Verdict(k, op + ' returns normally', l, key, why)]
    return []


def judged(ctx, engine, exe, histories, judge, valid=None, label=None, shrink=True, timeout=600):
    """judge(history, impl_output) -> list of Verdicts (every failed expectation).  Returns the number of histories on
    which the implementation satisfied the judge and equalled the model.  Verdicts whose key is a `finding:` line of
    known_findings.txt are reported as KNOWN-FINDING (once per key) and do not stop the run."""
    if not ctx.build_model():
        return 0
    npre = len(PREFIX)
    known = {k for k, _ in ctx.known_findings()}
    seen_known = set()
    def verdicts(h, io):
        return fault_verdicts(io, h) + judge(h, io)
    impl = run_impl(exe, histories, timeout)
    model = run_model(ctx, engine, histories, timeout)
    agreed, noted_broken = 0, False
    for i, h in enumerate(histories):
        if i >= len(impl):
            ctx.broken.append(f'{label or engine}: harness produced no output for history {i} ({h[:4]}...)')
            break
        io = impl[i][npre:]
        mo = model[i][npre:] if i < len(model) else ['!! missing']
        vs = verdicts(h, io)
        for v in vs:
            if v.key in known and v.key not in seen_known:
                seen_known.add(v.key)
                ctx.violation({'obligation': f'{label or engine}: {v.why}', 'ops': list(PREFIX) + h, 'expected': v.expected,
                               'observed': v.observed}, key=v.key)
        new = [v for v in vs if v.key not in known]
        if new:
            v = new[0]
            def fails(cand):
                if valid and not valid(cand):
                    return False
                a = run_impl(exe, [cand], timeout)[0][npre:]
                return any(x.key == v.key for x in verdicts(cand, a))
            hh = vlib.ddmin(h, fails) if shrink and len(h) > 1 else h
            a = run_impl(exe, [hh], timeout)[0][npre:]
            b = run_model(ctx, engine, [hh], timeout)[0][npre:]
            v2 = ([x for x in verdicts(hh, a) if x.key == v.key] or [v])[0]
            k = v2.at
            ctx.violation({'obligation': f'{label or engine}: implementation vs the property ({v2.why})',
                           'ops': list(PREFIX) + hh, 'first_failed_expectation_at_output': k,
                           'expected': v2.expected, 'observed': v2.observed,
                           'implementation': a[max(0, k - 2):k + 3], 'model': b[max(0, k - 2):k + 3], 'engine': engine,
                           'how_to_rerun': f'./check {ctx.pid} --replay <this file>'},
                          key=v2.key)
            return agreed
        if io != mo:
            if not noted_broken:
                k = vlib.diff_streams(io, mo)
                ctx.broken.append(f'correspondence {label or engine}: model differs from implementation (the implementation '
                                  f'satisfies the property on this history) on {h[:6]}...: at output {k} model={mo[k:k + 1]} impl={io[k:k + 1]}')
                ctx.cov.setdefault('correspondence_breaks', []).append({'ops': h[:40], 'at': k, 'model': mo[k:k + 2], 'impl': io[k:k + 2]})
                noted_broken = True
        else:
            agreed += 1
    return agreed


def uncovered_lines(ctx, harness_src, lib_sources, histories, report=('pack.c', 'wavheader.c')):
    """thorough tier: rebuild the harness with --coverage (no sanitizer), run the same histories and list the executable
    lines of the modelled files that were never reached (generator quality is measured, not assumed)"""
    d = os.path.join(ctx.tmp, 'cov')
    os.makedirs(d, exist_ok=True)
    objs = []
    for src in [harness_src] + list(lib_sources):
        o = os.path.join(d, os.path.basename(src)[:-2] + '.o')
        rc, out, err = vlib.sh(['gcc', '-g', '-O0', '--coverage', '-D' + vlib.GUARD, '-I' + os.path.join(vlib.REPO, 'include'),
                                '-I' + os.path.join(vlib.VERIF, 'harness'), '-c', src, '-o', o], timeout=300)
        if rc != 0:
            return {'error': 'coverage build failed: ' + err[-300:]}
        objs.append(o)
    exe = os.path.join(d, 'h_cov')
    rc, out, err = vlib.sh(['gcc', '--coverage', '-o', exe] + objs, timeout=300)
    if rc != 0:
        return {'error': 'coverage link failed: ' + err[-300:]}
    run_impl(exe, histories)
    res = {}
    for src in lib_sources:
        name = os.path.basename(src)
        if name not in report:
            continue
        rc, out, err = vlib.sh(['gcov', name[:-2] + '.gcda'], cwd=d, timeout=120)
        try:
            lines = open(os.path.join(d, name + '.gcov')).read().split('\n')
        except OSError:
            res[name] = 'no gcov output: ' + (out + err)[-200:]
            continue
        miss = [int(l.split(':')[1]) for l in lines if l.lstrip().startswith('#####')]
        hit = sum(1 for l in lines if l.split(':')[0].strip().rstrip('*').isdigit())
        res[name] = {'executed_lines': hit, 'never_executed': miss}
    return res


def corpus(pid):
    """minimised past failures: lists of op lines (without the reset prefix), run first"""
    out = []
    for p in sorted(glob.glob(os.path.join(vlib.VERIF, 'corpus', pid, '*.json'))):
        r = json.load(open(p))
        ops = [o for o in r['ops'] if o != 'reset']
        out.append(ops)
    return out


def replay_judged(ctx, path, engine, exe, judge):
    r = json.load(open(path))
    if 'ops' not in r:
        print('replay names a broken obligation, not an input:', r.get('obligation'))
        return 1
    if not ctx.build_model():
        return 2
    h = [o for o in r['ops'] if o != 'reset']
    io = run_impl(exe, [h])[0][len(PREFIX):]
    mo = run_model(ctx, engine, [h])[0][len(PREFIX):]
    vs = fault_verdicts(io, h) + judge(h, io)
    v = vs[0] if vs else None
    print('ops           :', h)
    print('implementation:', io[:40])
    print('model         :', mo[:40])
    if v is not None:
        print(f'PROPERTY FAILS at output {v.at}: {v.why}\n  expected: {v.expected}\n  observed: {v.observed}')
        return 1
    print('property holds on this history' + ('' if io == mo else ' (but model and implementation differ)'))
    return 0 if io == mo else 1


# --------------------------------------------------------------------------- WAV reference (format knowledge)
RIFF, WAVE, FMT_, FACT, DATA = b'RIFF', b'WAVE', b'fmt ', b'fact', b'data'
WIDTH = {0: 2, 1: 4, 2: 4}            # bytes per sample of S16LE, S32LE, FLOAT


def le(v, n):
    return bytes((v >> (8 * i)) & 0xff for i in range(n))


def u(bs, off, n):
    return sum(bs[off + i] << (8 * i) for i in range(n))


def build_header(audio_format, nch, rate, byte_rate, block_align, bits, data_size, fact_samples=None, ext=None,
                 chunk_size=None):
    """a RIFF/WAVE header.  ext: None (16-byte fmt chunk) | ('cb', cb_size, payload bytes) -> fmt chunk of 18+len(payload)"""
    fmt_body = le(audio_format, 2) + le(nch, 2) + le(rate, 4) + le(byte_rate, 4) + le(block_align, 2) + le(bits, 2)
    if ext is not None:
        fmt_body += le(ext[1], 2) + bytes(ext[2])
    body = WAVE + FMT_ + le(len(fmt_body), 4) + fmt_body
    if fact_samples is not None:
        body += FACT + le(12, 4) + le(fact_samples, 4)     # librfn writes 12 here (the RIFF convention would be 4)
    body += DATA + le(data_size, 4)
    cs = (len(body) + data_size) if chunk_size is None else chunk_size
    return RIFF + le(cs & 0xffffffff, 4) + body


def header_extent(bs, sz):
    """number of bytes the WAV header at the start of bs[0:sz] occupies, or None when it is incomplete
    (a field needed to find its end lies beyond sz).  Layout: 12 bytes RIFF/size/WAVE, 8 bytes fmt chunk header,
    16 bytes fmt body, [cb_size, then 22 bytes of extension when cb_size == 22, else the rest of the fmt chunk],
    [12-byte fact chunk], 8 bytes data chunk header."""
    bs = bs[:sz]
    if sz < 36:
        return None
    fcs = u(bs, 16, 4)
    pos = 36
    if fcs >= 18:
        if sz < 38:
            return None
        cb = u(bs, 36, 2)
        pos = 38 + (22 if cb == 22 else fcs - 18)
    if pos + 4 > sz:
        return None
    if bytes(bs[pos:pos + 4]) == FACT:
        pos += 12
    pos += 8
    return pos if pos <= sz else None


def ignored_extension(bs):
    """byte range of the format-chunk extension that the decoder skips (normalised to zero on re-encoding)"""
    if len(bs) < 38:                  # a header cut short that a (broken) decoder nevertheless accepted: nothing to normalise
        return (38, 38)
    fcs = u(bs, 16, 4)
    if fcs >= 18 and u(bs, 36, 2) != 22:
        return (38, 38 + fcs - 18)
    return (38, 38)


def parse_show(line):
    d = {}
    for w in line.split()[1:]:
        k, _, v = w.partition('=')
        d[k] = v
    return d

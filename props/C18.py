"""C18 — hex dump output parses back to the same bytes; the parser is safe on any text (tie D; kernel-only proofs).

Every op is independent (hex.c has no state), so a failing case is shrunk *inside* the op: over the bytes of the
array / of the text, or over the lines and items of a text of the accepted syntax (vlib.correspond shrinks only
over op lists, hence the small loop of its own below; it uses vlib.run_exe / ddmin / ctx.violation).
"""
import hashlib, json, os, re
import vlib

META = {
    'engine': 'lean-D',
    'technique': 'Lean 4 proofs (induction over the remaining text / over 16-byte rows) about a hand model of hex.c in which a C string is a byte list with an explicit NUL '
                 'and every read and pointer step is checked; model tied to the C by differential runs on exactly-sized heap strings under ASan',
    'level_text': 'Proved for the model, for every byte array and every byte string of any length and any number of calls: (dump_format) hex_dump_to_file writes exactly ceil(n/16) rows of 16 two-digit lower-case pairs '
                  '(the last row 1..16), each ended by a newline; (dump_parse_roundtrip) hex_get_byte(text,&p), hex_get_byte(NULL,&p), ... on that text return exactly the bytes and then -1 for ever; '
                  '(parser_safe, parser_no_fault, parser_ptr_within) on every string (any bytes) no call reads or moves a pointer beyond the NUL, *p stays inside the string, every result is in 0..255 or -1, '
                  '-1 comes after at most len/2 byte results and is sticky, in both calling styles (NULL continuation and the hextest.c style); (accepted_syntax) pairs with optional 0x, either case, arbitrary blanks '
                  'and an address: prefix on every line (more generally: never an address after a line without one) parse to exactly the pairs, the final newline being optional. '
                  'Sampled, not proved: that the C code behaves as the model (correspondence run on every check: dumps of lengths around every multiple of 16 with all byte values, syntax-directed texts, '
                  'random strings and near misses, every string over a 7-8 letter alphabet up to length 5 (quick) / 7 (thorough), exactly-sized heap copies under ASan, and histories of 2-4 texts placed right-aligned one after the other in one persistent 4096-byte block '
                  '(refilled buffer / recycled chunk: the model is stateless, so state hidden in hex.c between calls is a concrete violation whose replay is the short history); '
                  'libc isspace/isxdigit and hex.c nibble/hexchar tables compared for all 256 chars).',
    'level_note': 'Trusted: Lean kernel (standard axioms only); hand model of hex.c validated each run against the real code compiled from the tree (harness includes hex.c); libc strchr/isspace/isxdigit/fprintf '
                  'are modelled by explicit definitions (isspace/isxdigit compared with libc for all 256 values, C locale); char is signed (x86-64 gcc); the int return value of hex_dump_to_file is '
                  'compared for the lengths run, not modelled beyond INT_MAX.',
    'design_ref': '§6 C18',
}
REQUIRED = ['Librfn.C18.dump_format', 'Librfn.C18.dump_parse_roundtrip', 'Librfn.C18.parser_safe', 'Librfn.C18.parser_no_fault',
            'Librfn.C18.parser_ptr_within', 'Librfn.C18.accepted_syntax', 'Librfn.C18.accepted_syntax_address_on_each_line',
            'Librfn.C18.accepted_syntax_no_address', 'Librfn.C18.dump_parse_roundtrip_hextest_style',
            'Librfn.C18.chunks_shape', 'Librfn.C18.chunks_flatten']

BLANKS = b' \t\v\f\r'            # isspace minus newline
XD = b'0123456789abcdefABCDEF'


# ------------------------------------------------------------------ specification (from the property text)
def fmt_dump(bs):
    """16 two-digit lower-case pairs per line"""
    out = ''
    for i in range(0, len(bs), 16):
        out += ''.join('%02x' % b for b in bs[i:i + 16]) + '\n'
    return out.encode()


def enc(b):
    return b.hex() if b else '-'


def parse_tokens(line):
    w = line.split()
    if not w or w[0] != 'parse':
        return None
    toks = []
    for t in w[1:]:
        if t == '-1':
            toks.append((-1, None))
        elif re.fullmatch(r'-?\d+@-?\d+', t):
            v, o = t.split('@'); toks.append((int(v), int(o)))
        else:
            return None
    return toks


def check_parse(line, length, expect=None):
    """the property's clauses for one string of `length` bytes; returns None or the clause that fails"""
    toks = parse_tokens(line)
    if toks is None:
        return 'no clean result (crash, over-read, or no -1 within len+2 calls): ' + line[-120:]
    vals = [v for v, _ in toks]
    if -1 not in vals:
        return '-1 not reached'
    k = vals.index(-1)
    if vals[k:] != [-1, -1, -1]:
        return '-1 is not sticky: ' + repr(vals[k:])
    if k > length // 2:
        return f'{k} bytes from {length} characters'
    prev = 0
    for v, o in toks[:k]:
        if not 0 <= v <= 255:
            return f'result {v} outside 0..255'
        if not (prev + 2 <= o <= length):
            return f'*p = text+{o} after the previous text+{prev} in a string of {length}'
        prev = o
    if expect is not None and vals[:k] != list(expect):
        return f'bytes {vals[:k][:24]} expected {list(expect)[:24]}'
    return None


def spec_tables(lines):
    if len(lines) != 4:
        return 'tables: incomplete output'
    sp = ''.join('1' if (c == 32 or 9 <= c <= 13) else '0' for c in range(256))
    xd = ''.join('1' if c in XD else '0' for c in range(256))
    if lines[0] != 'isspace ' + sp:
        return 'isspace table differs from the C locale'
    if lines[1] != 'isxdigit ' + xd:
        return 'isxdigit table differs from the C locale'
    try:
        nib = [int(x) for x in lines[2].split()[1].split(',')]
        hc = [int(x) for x in lines[3].split()[1].split(',')]
    except (ValueError, IndexError):
        return 'tables: unreadable'
    for c in XD:
        if nib[c] != int(chr(c), 16):
            return f'nibble({chr(c)!r}) = {nib[c]}'
    for h in range(16):
        if hc[h] != b'0123456789abcdef'[h]:
            return f'hexchar({h}) = {hc[h]}'
    return None


# ------------------------------------------------------------------ ops
class Op:
    """kind: tables | dump | parse | reparse;  data: bytes;  expect: byte values the property fixes (or None);
    struct: accepted-syntax structure the text was rendered from (for structural shrinking)"""
    def __init__(self, kind, data=b'', expect=None, struct=None, cls='', blk=False, hist=None):
        self.kind, self.data, self.expect, self.struct, self.cls = kind, bytes(data), expect, struct, cls
        # blk: the text (and the array of a dump) is placed right-aligned in the harness's persistent 4096-byte block
        # instead of a fresh exactly-sized block; hist: id of the history (texts parsed one after the other in that block)
        self.blk, self.hist = blk and kind != 'tables', hist

    def line(self):
        return 'tables' if self.kind == 'tables' else f'{"b" if self.blk else ""}{self.kind} {enc(self.data)}'

    def clone(self, data=None, expect=None, struct=None):
        return Op(self.kind, self.data if data is None else data, expect, struct, self.cls, self.blk, self.hist)

    def spec(self, out):
        """None, or why the implementation's output contradicts the property"""
        if any(l.startswith('!!') for l in out):
            return [l for l in out if l.startswith('!!')][0]
        if self.kind == 'tables':
            return spec_tables(out)
        if self.kind == 'dump':
            if len(out) != 2:
                return 'incomplete output'
            want = f'dump ret={len(self.data)} {enc(fmt_dump(self.data))}'
            if out[0] != want:
                return 'dump text is not rows of 16 lower-case pairs: ' + out[0][:100]
            return check_parse(out[1], len(fmt_dump(self.data)), list(self.data))
        if len(out) != 1:
            return 'incomplete output'
        return check_parse(out[0], len(self.data), self.expect)


# accepted syntax: struct = (addr_mode, [(addr, [(blanks, pfx, hi, lo)], trail)], final_newline)
def render(st):
    addr_mode, lines, final_nl = st
    out = b''
    for i, (addr, items, trail) in enumerate(lines):
        if addr_mode:
            out += addr + b':'
        for (bl, pfx, hi, lo) in items:
            out += bl + (b'0x' if pfx else b'') + bytes([hi, lo])
        out += trail
        if i + 1 < len(lines) or final_nl:
            out += b'\n'
    return out


def expected(st):
    return [int(chr(hi) + chr(lo), 16) for (_, items, _) in st[1] for (_, _, hi, lo) in items]


def syntax_op(st, kind='parse', blk=False, hist=None, cls='syntax'):
    return Op(kind, render(st), expected(st), st, cls, blk, hist)


def gen_blanks(rng, lo=0):
    return bytes(rng.choice(BLANKS) for _ in range(rng.choice([lo, lo, 1, 1, 2, 3])))


def gen_syntax(rng):
    addr_mode = rng.chance(1, 2)
    style = rng.below(4)          # 0: dump-like, 1: xxd-like, 2: 0x everywhere, 3: wild
    lines = []
    off = 0
    for _ in range(rng.choice([0, 1, 1, 2, 3, 4, 6])):
        n = rng.choice([0, 1, 2, 8, 15, 16, 16, 17]) if style != 3 else rng.range(0, 6)
        items = []
        for _ in range(n):
            bl = b'' if style == 0 and not addr_mode else (b' ' if style in (1, 2) else gen_blanks(rng))
            pfx = (style == 2) or (style == 3 and rng.chance(1, 3))
            hi, lo = rng.choice(XD), rng.choice(XD)
            if style == 3 and rng.chance(1, 4):
                hi = ord('0')                              # "0?" pairs next to the 0x test
            items.append((bl, pfx, hi, lo))
        if addr_mode:
            if style == 3:
                addr = bytes(rng.choice(b'0123456789abcdefxX \tgz#@-_.' + bytes([rng.range(1, 255)])) for _ in range(rng.range(0, 6)))
                addr = addr.replace(b':', b'').replace(b'\n', b'').replace(b'\0', b'')
            else:
                addr = b'%04x' % off if rng.chance(3, 4) else b'%08X' % off
        else:
            addr = b''
        off += n
        lines.append((addr, items, gen_blanks(rng) if style == 3 or rng.chance(1, 4) else b''))
    return (addr_mode, lines, rng.chance(3, 4))


def gen_string(rng):
    """strings over hex digits, 'x', ':', white space, newlines and arbitrary other bytes"""
    shape = rng.below(10)
    n = rng.choice([0, 1, 2, 3, 4, 5, 6, 8, 12, 20, 33, 64]) if shape < 8 else rng.range(60, 400)
    out = bytearray()
    for _ in range(n):
        r = rng.below(100)
        if r < 40:
            out.append(rng.choice(XD))
        elif r < 50:
            out.append(ord('0'))
        elif r < 58:
            out.append(rng.choice(b'xX'))
        elif r < 66:
            out.append(ord(':'))
        elif r < 78:
            out.append(rng.choice(b' \t\v\f\r'))
        elif r < 88:
            out.append(10)
        elif r < 99:
            # other bytes; among them what the C library's own number parsers accept around a digit (sign, point, exponent, suffix)
            out.append(rng.choice([rng.range(1, 255), rng.choice(b'gGzZ/@`'), rng.range(128, 255), rng.choice(b'+-+-.,_#hHuUlL')]))
        else:
            out.append(0)                                   # an early NUL: the string simply ends there
    return bytes(out)


def mutate(rng, text):
    """a near miss of a well-formed text: a few random edits"""
    b = bytearray(text)
    for _ in range(rng.range(1, 3)):
        r = rng.below(3)
        pos = rng.below(len(b) + 1)
        if r == 0 or not b:
            b.insert(pos, rng.choice(XD + b'x: \n\tg+-' + bytes([rng.range(1, 255)])))
        elif r == 1:
            del b[min(pos, len(b) - 1)]
        else:
            b[min(pos, len(b) - 1)] = rng.choice(XD + b'x: \n\tg')
    return bytes(b)


def gen_dump_arrays(rng, tier):
    top = 8 if tier == 'quick' else 40
    lens = set([0, 1, 2, 255, 256, 257])
    for k in range(1, top + 1):
        lens |= {16 * k - 1, 16 * k, 16 * k + 1}
    arrays = []
    for n in sorted(lens):
        arrays.append(bytes(rng.below(256) for _ in range(n)))
    arrays.append(bytes(range(256)))                        # every byte value, in order and reversed
    arrays.append(bytes(reversed(range(256))))
    arrays.append(bytes([0x0a] * 33)); arrays.append(bytes([0x00] * 17)); arrays.append(bytes([0xff] * 16))
    for _ in range(20 if tier == 'quick' else 400):
        n = rng.choice([rng.range(0, 70), 16 * rng.range(0, 12) + rng.choice([-1, 0, 1]) % 16, rng.range(0, 600)])
        arrays.append(bytes(rng.choice([rng.below(256), rng.below(256), rng.choice([0, 9, 10, 0x0a, 0xa0, 0x3a, 0x78, 0xff])]) for _ in range(n)))
    return arrays


def pad_to(st, n):
    """the same well-formed text made at least n characters long by trailing blanks on its last line"""
    addr_mode, lines, fnl = st
    short = n - len(render(st))
    if short <= 0:
        return st
    if not lines:
        lines = [(b'0' if addr_mode else b'', [], b'')]
    a, items, t = lines[-1]
    return (addr_mode, lines[:-1] + [(a, items, t + b' ' * short)], fnl)


def gen_syntax_mode(rng, addr_mode, nonempty=False):
    for _ in range(50):
        st = gen_syntax(rng)
        if st[0] == addr_mode and (not nonempty or expected(st)):
            return st
    return (addr_mode, [(b'0010' if addr_mode else b'', [(b' ', False, ord('0'), ord('1'))], b'')], True)


def gen_block_histories(rng, n, first_id):
    """histories of 2-4 texts parsed one after the other in the SAME persistent block (a refilled line buffer / a recycled
    chunk): colon-free text(s) then addressed text(s) of equal or shorter length, the reverse, and free mixtures with
    random strings and dumps.  The model has no state, so each text's expected result is what it is on its own."""
    out = []
    for h in range(n):
        hid = first_id + h
        shape = rng.below(5)
        k = rng.range(2, 4)
        seq = []
        if shape <= 1:                                   # colon-free ... then addressed, equal or shorter
            na = rng.range(1, k - 1)
            addressed = [gen_syntax_mode(rng, True, nonempty=True) for _ in range(na)]
            longest = max(len(render(a)) for a in addressed)
            plain = [pad_to(gen_syntax_mode(rng, False), longest + rng.choice([0, 0, 1, 5])) for _ in range(k - na)]
            seq = [('syn', st) for st in plain + addressed]
        elif shape == 2:                                 # addressed ... then colon-free
            na = rng.range(1, k - 1)
            seq = [('syn', gen_syntax_mode(rng, True)) for _ in range(na)] + [('syn', gen_syntax_mode(rng, False, nonempty=True)) for _ in range(k - na)]
        else:                                            # anything after anything
            for _ in range(k):
                r = rng.below(6)
                if r <= 2:
                    seq.append(('syn', gen_syntax(rng)))
                elif r == 3:
                    seq.append(('str', gen_string(rng)))
                elif r == 4:
                    seq.append(('str', mutate(rng, render(gen_syntax(rng)))))
                else:
                    seq.append(('dump', bytes(rng.below(256) for _ in range(rng.choice([0, 1, 15, 16, 17, 33, rng.range(0, 70)])))))
        style = 'reparse' if rng.chance(1, 5) else 'parse'
        for kind, x in seq:
            if kind == 'syn':
                # hextest.c style is in the accepted syntax only for colon-free texts
                out.append(syntax_op(x, style if not x[0] else 'parse', blk=True, hist=hid, cls='block-history'))
            elif kind == 'str':
                out.append(Op(style, x, cls='block-history', blk=True, hist=hid))
            else:
                out.append(Op('dump', x, cls='block-history', blk=True, hist=hid))
    return out


def exhaustive(alphabet, maxlen):
    out, layer = [b''], [b'']
    for _ in range(maxlen):
        layer = [s + bytes([c]) for s in layer for c in alphabet]
        out += layer
    return out


# ------------------------------------------------------------------ running
def harness(ctx):
    log = ''
    for extra in ([], ['-DNO_HEXCHAR'], ['-DNO_NIBBLE'], ['-DNO_HEXCHAR', '-DNO_NIBBLE']):
        exe, log = ctx.cc('h_hex', [os.path.join(vlib.VERIF, 'harness/h_hex.c')], ['-I' + vlib.REPO + '/librfn'] + extra)
        if exe:
            if extra:
                msg = 'hex.c no longer defines the static helper(s) ' + ' '.join(e[5:].lower() for e in extra) + ': helper tables of the correspondence are skipped'
                if msg not in ctx.broken:
                    ctx.broken.append(msg)
            return exe
    raise vlib.Unbuildable('hex harness does not compile against the tree: ' + log[-1500:])


def run_impl(exe, ops, timeout=300):
    text = ''.join(op.line() + '\n--\n' for op in ops)
    outs = vlib.split_histories(vlib.run_exe([exe], text, timeout))
    return outs + [['!! missing (harness died earlier)']] * (len(ops) - len(outs))


def run_model(ctx, ops, timeout=600):
    text = ''.join(op.line() + '\n--\n' for op in ops)
    lines = ctx.run_model(['hex'], text, timeout).split('\n')
    if lines and lines[-1] == '':
        lines.pop()
    outs = vlib.split_histories(lines)
    return outs + [['!! missing']] * (len(ops) - len(outs))


def shrink_syntax(st, fails):
    addr_mode, lines, fnl = st
    lines = vlib.ddmin(lines, lambda ls: fails((addr_mode, ls, fnl)), 120)
    flat = [(i, j) for i, (_, items, _) in enumerate(lines) for j in range(len(items))]
    def build(keep):
        ks = set(keep)
        return (addr_mode, [(a, [it for j, it in enumerate(items) if (i, j) in ks], t) for i, (a, items, t) in enumerate(lines)], fnl)
    if len(flat) > 1:
        keep = vlib.ddmin(flat, lambda k: fails(build(k)), 160)
        if fails(build(keep)):
            lines = build(keep)[1]
    # simplify what is left: drop blanks, prefixes, trailing blanks, addresses' content
    for i in range(len(lines)):
        a, items, t = lines[i]
        for cand in ((a, items, b''), (b'0' if a else a, items, t),
                     (a, [(b' ' if bl else bl, p, h, l) for (bl, p, h, l) in items], t),
                     (a, [(bl, False, h, l) for (bl, p, h, l) in items], t)):
            trial = lines[:i] + [cand] + lines[i + 1:]
            if cand != lines[i] and fails((addr_mode, trial, fnl)):
                lines = trial; a, items, t = cand
    return (addr_mode, lines, fnl)


def is_bad(ctx, exe, seq, against_model):
    """run the op sequence in ONE fresh harness process; is the LAST op (still) a failure of the same kind?"""
    io = run_impl(exe, seq, 60)[-1]
    o = seq[-1]
    if io and io[-1].startswith('!! missing'):
        return False                                     # an earlier op died: not the failure being minimised
    if against_model:
        return o.spec(io) is None and io != run_model(ctx, [o], 60)[0]
    return o.spec(io) is not None


def shrink(ctx, exe, op, against_model, pre=()):
    """smallest input of the same kind on which the same kind of failure persists (after the ops `pre`)"""
    pre = list(pre)
    bad = lambda o: is_bad(ctx, exe, pre + [o], against_model)
    if op.kind == 'tables':
        return op
    if op.struct is not None and not against_model:
        st = shrink_syntax(op.struct, lambda s: bad(op.clone(render(s), expected(s), s)))
        return op.clone(render(st), expected(st), st)
    mk = (lambda d: op.clone(bytes(d)))
    data = list(op.data)
    if len(data) > 1:
        data = vlib.ddmin(data, lambda d: bad(mk(d)), 300)
    if op.kind == 'dump':                                  # plain values where the value does not matter
        for i in range(len(data)):
            for v in (0, 0x11):
                if data[i] != v and bad(mk(data[:i] + [v] + data[i + 1:])):
                    data[i] = v; break
    o = mk(data)
    return o if bad(o) else op


def shrink_history(ctx, exe, ops, i, against_model):
    """ops[i] failed in a batch.  Returns the shortest op sequence found (to be run in one fresh process) whose last op
    fails in the same way: the op alone when it does not depend on what ran before; otherwise the needed earlier ops
    (state leaking between calls, e.g. through the re-used block) with their texts shrunk as well."""
    op = ops[i]
    if is_bad(ctx, exe, [op], against_model):
        return [shrink(ctx, exe, op, against_model)]
    same = [o for o in ops[:i] if op.hist is not None and o.hist == op.hist]
    pre = same if same and is_bad(ctx, exe, same + [op], against_model) else list(ops[:i])
    if not is_bad(ctx, exe, pre + [op], against_model):
        return list(ops[:i + 1])[-50:]                   # not reproducible in a fresh process: report the tail as it ran
    if len(pre) > 1:
        pre = vlib.ddmin(pre, lambda c: is_bad(ctx, exe, c + [op], against_model), 200)
    small = shrink(ctx, exe, op, against_model, pre)
    for k in range(len(pre)):                            # shrink the texts of the earlier ops too
        o = pre[k]
        if o.kind == 'tables' or len(o.data) < 2:
            continue
        data = vlib.ddmin(list(o.data), lambda d: is_bad(ctx, exe, pre[:k] + [o.clone(bytes(d))] + pre[k + 1:] + [small], against_model), 120)
        cand = o.clone(bytes(data))
        if is_bad(ctx, exe, pre[:k] + [cand] + pre[k + 1:] + [small], against_model):
            pre[k] = cand
    return pre + [small]


def mask_tables(lines):
    """the helper tables outside the arguments hex.c passes (nibble: only characters isxdigit accepted; hexchar: 0..15) are not
    behaviour of the library: a rewrite of a helper may answer anything there"""
    try:
        nib = lines[2].split()[1].split(','); hc = lines[3].split()[1].split(',')
        return [lines[0], lines[1], 'nibble ' + ','.join(x if c in XD else '_' for c, x in enumerate(nib)),
                'hexchar ' + ','.join(x if c < 16 else '_' for c, x in enumerate(hc))]
    except (IndexError, AttributeError):
        return lines


def examine(ctx, exe, ops, label, stats, spec_only=False):
    """run ops through implementation and model; report the first op that contradicts the property (violation,
    shrunk) or on which model and implementation differ (broken correspondence).  Returns #ops that agreed."""
    if not ops:
        return 0
    impl = run_impl(exe, ops)
    model = run_model(ctx, ops)
    agreed = 0
    for i, (op, io, mo) in enumerate(zip(ops, impl, model)):
        why = op.spec(io)
        if op.kind == 'tables' and why is None:
            io, mo = mask_tables(io), mask_tables(mo)
        if spec_only and why is None:
            continue                         # deep search: the model is already known to differ; only the property's own clauses count
        if why is None and io == mo:
            agreed += 1
            stats['bytes_returned'] = stats.get('bytes_returned', 0) + sum(l.count('@') for l in io)
            continue
        if io and io[-1].startswith('!! missing'):
            io = run_impl(exe, [op], 60)[0]; why = op.spec(io)
            if why is None and io == mo:
                agreed += 1; continue
        if why is not None:
            seq = shrink_history(ctx, exe, ops, i, against_model=False)
            outs = run_impl(exe, seq, 60)
            small, sio = seq[-1], outs[-1]
            smo = run_model(ctx, [small], 60)[0]
            ctx.violation({'obligation': f'{label}: implementation vs the property ({op.kind}, class {op.cls or op.kind}'
                                         + (', texts parsed one after the other in the same block' if len(seq) > 1 else '') + ')',
                           'ops': [o.line() for o in seq],
                           'meta': [{'kind': o.kind, 'block': o.blk, 'expect': o.expect, 'text': o.data.decode('latin-1')} for o in seq],
                           'why': small.spec(sio), 'observed': sio, 'model': smo,
                           'expected': ([f'dump ret={len(small.data)} {enc(fmt_dump(small.data))}', 'parse ' + ' '.join(map(str, list(small.data) + [-1, -1, -1]))] if small.kind == 'dump'
                                        else (['parse ' + ' '.join(map(str, list(small.expect) + [-1, -1, -1]))] if small.expect is not None
                                              else 'values in 0..255, -1 within len/2+1 calls and sticky, no access beyond the NUL')),
                           'note': ('the last op fails only after the earlier ops of this replay ran in the same process: state leaks between calls'
                                    if len(seq) > 1 else 'the op fails on its own'),
                           'original_input': op.line()[:400], 'how_to_rerun': f'./check {ctx.pid} --replay <this file>'},
                          key='ops:' + hashlib.sha1('\n'.join(o.line() for o in seq).encode()).hexdigest()[:16])
            return agreed
        seq = shrink_history(ctx, exe, ops, i, against_model=True)
        small = seq[-1]
        sio = run_impl(exe, seq, 60)[-1]; smo = run_model(ctx, [small], 60)[0]
        ctx.broken.append(f'correspondence hex ({label}): the model differs from the implementation on `{" ; ".join(o.line() for o in seq)[:400]}` '
                          f'(text {small.data[:80]!r}): model={str(smo)[:300]} impl={str(sio)[:300]}; the property\'s own clauses hold on this input')
        return agreed
    return agreed


def deep_search(ctx, exe, rng, stats):
    """the model no longer matches the code: compare the implementation with the property directly on a larger campaign"""
    for rnd in range(6):
        ops = [Op('tables')] + [Op('dump', a, cls='dump') for a in gen_dump_arrays(rng, 'thorough')]
        ops += [syntax_op(gen_syntax(rng), rng.choice(['parse', 'parse', 'reparse'])) for _ in range(1500)]
        ops = [o for o in ops if not (o.kind == 'reparse' and o.struct and o.struct[0])]
        ops += [Op(rng.choice(['parse', 'reparse']), gen_string(rng), cls='random') for _ in range(4000)]
        ops += gen_block_histories(rng, 2000, 10 ** 6 * (rnd + 1))
        impl = run_impl(exe, ops)
        for i, (op, io) in enumerate(zip(ops, impl)):
            ctx.count(op.line())
            if op.spec(io) is not None:
                examine(ctx, exe, ops[:i + 1][-400:], 'deep search', stats, spec_only=True)
                return True
    return False


def coverage(ctx, ops):
    """thorough tier: which lines / branches of hex.c did the generated inputs reach (gcov on an uninstrumented-by-ASan build)"""
    d = os.path.join(ctx.tmp, 'cov')
    os.makedirs(d, exist_ok=True)
    rc, o, e = vlib.sh(['gcc', '-g', '-O0', '--coverage', '-I' + os.path.join(vlib.REPO, 'include'), '-I' + vlib.REPO + '/librfn',
                        '-o', os.path.join(d, 'h_cov'), os.path.join(vlib.VERIF, 'harness/h_hex.c')], timeout=120, cwd=d)
    if rc != 0:
        ctx.notes.append('coverage build failed: ' + (o + e)[-300:]); return
    vlib.sh([os.path.join(d, 'h_cov')], input=''.join(op.line() + '\n' for op in ops), timeout=300, cwd=d)
    rc, o, e = vlib.sh(['gcov', '-b', '-o', '.', 'h_cov-h_hex.gcda'], timeout=120, cwd=d)
    m = re.search(r"File '[^']*librfn/hex\.c'\s*Lines executed:([\d.]+)% of (\d+)\s*Branches executed:([\d.]+)% of (\d+)\s*Taken at least once:([\d.]+)% of (\d+)", o)
    if not m:
        ctx.notes.append('coverage: gcov output not understood: ' + (o + e)[-300:]); return
    missed = []
    try:
        for ln in open(os.path.join(d, 'hex.c.gcov'), errors='replace'):
            mm = re.match(r'\s*#####:\s*(\d+):(.*)', ln)
            if mm:
                missed.append(f'{mm.group(1)}:{mm.group(2).strip()[:60]}')
    except OSError:
        pass
    ctx.cov['hex_c_coverage'] = {'lines_pct': float(m.group(1)), 'lines': int(m.group(2)), 'branches_executed_pct': float(m.group(3)),
                                 'branches_taken_pct': float(m.group(5)), 'branches': int(m.group(4)), 'lines_not_executed': missed,
                                 'note': 'hex_dump() (a one-line wrapper writing to stdout) is not called by the harness'}


def build_ops(ctx, rng):
    quick = ctx.tier == 'quick'
    groups = {}
    groups['dump'] = [Op('dump', a, cls='dump') for a in gen_dump_arrays(rng, ctx.tier)]
    syn = [gen_syntax(rng) for _ in range(600 if quick else 30000)]
    groups['syntax'] = [syntax_op(s) for s in syn]
    # hextest.c style re-runs the colon search on every call, so only colon-free texts are in the accepted syntax there
    groups['syntax-reparse'] = [syntax_op(s, 'reparse') for s in syn if not s[0]][:(150 if quick else 8000)]
    rnd = [gen_string(rng) for _ in range(4000 if quick else 300000)]
    rnd += [mutate(rng, render(s)) for s in syn[:(600 if quick else 30000)]]
    rnd += [mutate(rng, fmt_dump(a)) for a in gen_dump_arrays(rng, 'quick')[:40]]
    groups['block-history'] = gen_block_histories(rng, 500 if quick else 20000, 1)
    groups['tables'] = [Op('tables')]          # after the property-level classes: their witnesses are in the property's own terms
    groups['random'] = [Op('parse', t, cls='random') for t in rnd]
    groups['random-reparse'] = [Op('reparse', t, cls='random') for t in rnd[::3]]
    alpha, depth = (b'0fx: \ng', 5) if quick else (b'0aFx: \ng', 7)
    ex = exhaustive(alpha, depth)
    groups['exhaustive'] = [Op('parse', t, cls='exhaustive') for t in ex]
    groups['exhaustive-reparse'] = [Op('reparse', t, cls='exhaustive') for t in (ex if quick else exhaustive(alpha, 6))]
    return groups, (alpha, depth)


def run(ctx):
    rng = vlib.Rng(ctx.seed)
    import regen
    for u, e in regen.regen(['HexSeq']):      # tie T for the pure helpers hexchar / nibble
        ctx.broken.append(f'tie T: tools/c2lean.py cannot translate unit {u}: {e}')
    ctx.prove(['Librfn.Props.C18', 'Librfn.Props.C18Tie'], REQUIRED + ['Librfn.C18.hexchar_tie', 'Librfn.C18.nibble_tie'])
    exe = harness(ctx)
    if not ctx.build_model():
        return
    stats = {}
    corpus = []
    cdir = os.path.join(vlib.VERIF, 'corpus', 'C18')
    for fn in sorted(os.listdir(cdir)) if os.path.isdir(cdir) and not os.environ.get('VERIF_NO_CORPUS') else []:   # the switch is for mutation runs that measure the generators alone
        for ln in open(os.path.join(cdir, fn)):
            w = ln.split('#')[0].split()
            if len(w) >= 2 and w[0] in ('dump', 'parse', 'reparse', 'bdump', 'bparse', 'breparse'):
                exp = [int(x) for x in w[2][7:].split(',') if x] if len(w) > 2 and w[2].startswith('expect=') else None
                blk = w[0][0] == 'b'
                corpus.append(Op(w[0][1:] if blk else w[0], b'' if w[1] == '-' else bytes.fromhex(w[1]), exp, cls='corpus', blk=blk, hist=-1 if blk else None))
    groups, (alpha, depth) = build_ops(ctx, rng)
    order = [('corpus', corpus)] + list(groups.items())
    agreed, hist = 0, {}
    broken_before = len(ctx.broken)           # a broken proof does not stop the correspondence run
    for name, ops in order:
        if ctx.violations or len(ctx.broken) > broken_before:
            break
        got = examine(ctx, exe, ops, name, stats)
        agreed += got
        hist[name] = len(ops)
        for op in ops:
            nontrivial = (op.kind == 'tables' or (op.kind == 'dump' and len(op.data) > 0)
                          or (op.kind != 'dump' and (b'\n' in op.data or b':' in op.data or re.search(rb'[0-9a-fA-F]{2}', op.data) is not None)))
            ctx.count(op.line(), nontrivial=nontrivial)
    if ctx.broken and not ctx.violations:
        deep_search(ctx, exe, rng, stats)
    if ctx.tier == 'thorough' and not ctx.violations:
        coverage(ctx, [op for _, ops in order for op in ops][:60000])
    ctx.cov['traces_validated_against_impl'] = agreed
    ctx.cov['ops_by_class'] = hist
    ctx.cov['bytes_returned_by_hex_get_byte'] = stats.get('bytes_returned', 0)
    ctx.cov['dump_lengths'] = sorted(set(len(o.data) for o in groups['dump']))[:80]
    ctx.cov['exhaustive'] = True
    ctx.cov['exhaustive_scope'] = f'every string over {alpha.decode()!r} up to length {depth} ({len(groups["exhaustive"])} strings), both calling styles'
    for name in ('dump', 'syntax', 'block-history', 'random', 'exhaustive'):
        ops = groups[name]
        if ops:
            o = ops[min(len(ops) - 1, 7 + ctx.seed)]
            ctx.sample({'class': name, 'op': o.line().split()[0], 'input': o.data[:80].decode('latin-1'), 'length': len(o.data),
                        'expected_bytes': (o.expect[:16] if o.expect is not None else None)})
    ctx.cov['rule'] = ('ops: tables (libc isspace/isxdigit, nibble, hexchar for all 256 chars); dump of byte arrays of lengths 0..N around every multiple of 16, all byte values, '
                       'text compared with the 16-pairs-per-line format and parsed back on an exactly-sized heap copy; texts rendered from the accepted syntax '
                       '(optional 0x, either case, blanks, address: on every line or no colon) with the expected bytes; random strings over hex digits, x, :, blanks, newlines, arbitrary bytes '
                       'and near misses of well-formed texts; every string over a 7-8 letter alphabet up to a bounded length; each parsed in both calling styles, each in a fresh exactly-sized heap block; '
                       'block histories: 2-4 texts (colon-free then addressed of equal or shorter length, the reverse, mixtures with random strings and dumps) copied right-aligned one after the other into ONE persistent '
                       '4096-byte block (NUL = last byte, so an over-read is still seen) - hidden state leaking between calls shows as a difference from the stateless model. '
                       'distinct = distinct op line; non-trivial = non-empty dump, or text holding a hex pair, a newline or a colon')
    ctx.assumptions.append(META['level_note'])


def replay(ctx, path):
    r = json.load(open(path))
    if 'ops' not in r:
        print('replay names a broken obligation, not an input:', r.get('obligation'))
        return 1
    exe = harness(ctx)
    if not ctx.build_model():
        return 2
    ops = []
    metas = r.get('meta') or [{}] * len(r['ops'])
    for ln, m in zip(r['ops'], metas):
        w = ln.split()
        if w[0] == 'tables':
            ops.append(Op('tables'))
        else:
            blk = w[0] in ('bdump', 'bparse', 'breparse')
            ops.append(Op(w[0][1:] if blk else w[0], b'' if w[1] == '-' else bytes.fromhex(w[1]), m.get('expect'), blk=blk))
    impl = run_impl(exe, ops, 60); model = run_model(ctx, ops, 60)       # all ops in one harness process, in order
    rc = 0
    for op, io, mo in zip(ops, impl, model):
        why = op.spec(io)
        print('op            :', op.line()[:200], '' if op.kind == 'tables' else repr(op.data[:80]))
        print('implementation:', [l[:200] for l in io]); print('model         :', [l[:200] for l in mo])
        if op.expect is not None:
            print('expected bytes:', op.expect[:40])
        print('SAME (property clauses hold, implementation = model)' if why is None and io == mo
              else ('DIFFER: ' + (why or 'implementation differs from the model')))
        if why is not None or io != mo:
            rc = 1
    return rc

"""C03 — fibre_scheduler_next returns a wake-up time that never oversleeps (tie D; refinement proof)."""
from props import sched_common as sc

META = {
    'engine': 'lean-D',
    'technique': 'Lean 4 refinement proof of a hand model of fibre.c against an abstract scheduler specification; the returned wake-up time is an output of the refinement theorem; '
                 'model and specification tied to the real code by differential runs',
    'level_text': 'PLACEHOLDER',
    'level_note': 'PLACEHOLDER',
    'design_ref': '§6 C03',
}
REQUIRED = []


def run(ctx):
    sc.run_sched(ctx, META, ['Librfn.Props.C03'], REQUIRED, 'C03')


def replay(ctx, path):
    return sc.replay_sched(ctx, path)

"""C03 — fibre_scheduler_next returns a wake-up time that never oversleeps (tie D; refinement proof)."""
from props import sched_common as sc

META = {
    'engine': 'lean-D',
    'technique': 'Lean 4 refinement proof of a hand model of fibre.c against an abstract scheduler specification; the returned wake-up time is an output of the refinement theorem; '
                 'model and specification tied to the real code by differential runs',
    'level_text': "For every in-scope history the value returned by the model's fibre_scheduler_next(T) is w32(V) with V given by the property's formula on the state at return: V = T if the dispatched fibre yielded or the run queue or the accepted atomic requests are non-empty, else the earliest pending due time (proved to be a pending due time, minimal, and after T), else T + 0x7fffffff; V <= D for every pending timeout, T <= V <= T+0x7fffffff and the 32-bit value minus T reads as V - T (never_oversleeps). Sequential histories only: interrupt handlers placed inside fibre_scheduler_next are C06.",
    'level_note': "Trusted: Lean kernel (standard axioms only; no bv_decide); the hand model lean/Librfn/Model/Fibre.lean of fibre.c and the abstract specification are BOTH run against the real fibre.c+list.c+messageq.c+util.c on every check (sampled histories, exhaustive small scope in the thorough tier) - that correspondence is testing, not proof; cyclecmp32 is regenerated from util.c (tie T); list.c is replaced by sequences (its refinement is C09; every insertion is proved to be of a node in no list); the atomic run queue is its list of committed entries, fibre_run_atomic runs to completion (the lock-free protocol is C04/C06); scope = the property's quantifier: <= 1 unsatisfied fibre_timeout per dispatch, non-decreasing true times, every pending due time within 2^31 ticks of the pass time (the 9th outstanding atomic request is refused by model and specification alike, so no clause is needed).",
    'design_ref': '§6 C03',
}
REQUIRED = ['Librfn.C03.wake_formula', 'Librfn.C03.wakeup_spec', 'Librfn.C03.pending_after_return', 'Librfn.C03.never_oversleeps']


def run(ctx):
    sc.run_sched(ctx, META, ['Librfn.Props.C03'], REQUIRED, 'C03')


def replay(ctx, path):
    return sc.replay_sched(ctx, path)

"""C03 — fibre_scheduler_next returns a wake-up time that never oversleeps (tie D; refinement proof)."""
import os
from props import sched_common as sc

META = {
    'engine': 'lean-D',
    'technique': 'Lean 4 refinement proof of a hand model of fibre.c against an abstract scheduler specification; the returned wake-up time is an output of the refinement theorem; '
                 'model and specification tied to the real code by differential runs',
    'level_text': "For every in-scope history the value returned by the model's fibre_scheduler_next(T) is w32(V) with V given by the property's formula on the state at return: V = T if the dispatched fibre yielded or the run queue or the accepted atomic requests are non-empty, else the earliest pending due time (proved to be a pending due time, minimal, and after T), else T + 0x7fffffff; V <= D for every pending timeout, T <= V <= T+0x7fffffff and the 32-bit value minus T reads as V - T (never_oversleeps). The property's last sentence is proved about the consumer itself, one iteration of the POSIX main loop posix/fibre_posix.c (Model/MainLoop.lean: the model's pass at clock reading T1, then sleep = min(int32(returned - T2), 50000) if positive, T2 the reading after the pass): for T1 <= T2 <= T1 + 2^31 the loop never sleeps past the returned time, hence past no pending due time, never sleeps when anything is runnable at return, polls at least every 50 ms and does sleep while idle (mainloop_never_delays and its parts; the pinned tree's `< 1000 ? interval : 50000` rule, defect D13, is kept as posixSleepOld with the kernel-checked witness old_mainloop_oversleeps). The interrupt clause (a request completed before the final check makes the pass return T) is theorem Librfn.C06.wakeup_with_isr; this check additionally runs the C06 engine and judges its oversleep verdict.",
    'level_note': "Trusted: Lean kernel (standard axioms; bv_decide certificates for Librfn.C03.Tie.mainloop_generated and Librfn.C03.TieWake.get_next_wakeup_generated* only); tie T2 for get_next_wakeup (regenerated from fibre.c with the kernel structure as state, messageq_empty external; equal to getNextWakeup of the model under stated representation hypotheses, Props/C03TieWake.lean) and for the control skeleton of fibre_scheduler_next (helpers and the dispatched entry point external, assumed not to write kernel.now/state/current; slow-path condition and selection of the returned time as in prelude/schedulerNext of the model, Props/C03TieNext.lean); tie T2 (DESIGN 12): one iteration of fibre_scheduler_main_loop with cyclecmp32 inlined is regenerated from fibre_posix.c + util.c each run and proved equal to Model.MainLoop.posixSleep for every 32-bit clock reading and returned time (Props/C03Tie.lean); the hand model lean/Librfn/Model/Fibre.lean of fibre.c and the abstract specification are BOTH run against the real fibre.c+list.c+messageq.c+util.c on every check (sampled histories, exhaustive small scope in the thorough tier) - that correspondence is testing, not proof; cyclecmp32 is regenerated from util.c (tie T); list.c is replaced by sequences (its refinement is C09; every insertion is proved to be of a node in no list); the main loop is checked per iteration on a virtual clock (harness-owned time_now/usleep; one capture macro around its call of fibre_scheduler_next) and its window T2 - T1 <= 2^31 us (a pass lasting under 35.8 min) is a hypothesis: beyond it the int32 interval wraps and the real loop sleeps 50 ms with a runnable fibre (theorem window_is_needed, out of scope, not alarmed); the atomic run queue is its list of committed entries, fibre_run_atomic runs to completion (the lock-free protocol is C04/C06); scope = the property's quantifier: <= 1 unsatisfied fibre_timeout per dispatch, non-decreasing true times, every pending due time within 2^31 ticks of the pass time (the 9th outstanding atomic request is refused by model and specification alike, so no clause is needed).",
    'design_ref': '§6 C03',
}
REQUIRED = ['Librfn.C03.wake_formula', 'Librfn.C03.wakeup_spec', 'Librfn.C03.pending_after_return', 'Librfn.C03.never_oversleeps',
            'Librfn.C03.mainloop_sleep_spec', 'Librfn.C03.mainloop_never_sleeps_past_returned_time', 'Librfn.C03.mainloop_no_sleep_when_runnable',
            'Librfn.C03.mainloop_polls', 'Librfn.C03.mainloop_sleeps_when_idle', 'Librfn.C03.mainloop_never_delays',
            'Librfn.C03.mainloop_never_delays_history', 'Librfn.C03.window_is_needed', 'Librfn.C03.old_mainloop_oversleeps']


def isr_clause(ctx):
    """The property's interrupt clause ("any interrupt-context run request that completed before the scheduler's final
    check"): proved as Librfn.C06.wakeup_with_isr; here the C06 engine (real fibre.c with interrupt calls placed at the
    atomic points of fibre_scheduler_next) is run and only the monitor's `oversleeps` verdict is judged."""
    import vlib
    from props import C06
    rng = vlib.Rng(ctx.seed * 7 + 3)
    exe = C06.harness(ctx)
    hs = [h for (name, base, calls) in C06.base_scenarios() if name in ('handler', 'lone-yielder', 'full-7', 'full-8', 'sleeper', 'kill-handler')
          for h in C06.placements(ctx, base, calls, 1, nested=False)]
    hs += [C06.gen_yielder(rng) for _ in range(120 if ctx.tier == 'quick' else 3000)] + [C06.gen_random(rng) for _ in range(250 if ctx.tier == 'quick' else 8000)]
    hs = [h for h in hs if C06.valid(h)]
    impl = C06.run_impl(exe, hs, 600)
    ver = C06.run_spec(ctx, impl, 600)
    n = 0
    for i, h in enumerate(hs[:len(impl)]):
        why = C06.judge(impl[i], ver[i] if i < len(ver) else None)
        ctx.count(('isr', tuple(C06.lines_of(h))), nontrivial=C06.scripted_calls(h) > 0)
        # `lost-wakeup` / `lost-event` are verdicts at quiescence: the scheduler went idle - its last pass returned a sleep time -
        # while an accepted interrupt-context request was still owed its dispatch: the clause "returns t whenever any fibre is
        # runnable on return, including any interrupt-context run request that completed before the final check"
        c03 = lambda w: bool(w) and ('oversleep' in w or w.startswith('crash') or w.startswith('lost-wakeup') or w.startswith('lost-event'))
        if c03(why) and not ctx.violations:
            def fails(c):
                im = C06.run_impl(exe, [c], 60); vv = C06.run_spec(ctx, im, 60)
                w = C06.judge(im[0], vv[0] if vv else None)
                return c03(w)
            small = C06.shrink(fails, h)
            ctx.violation({'obligation': 'returned wake-up time with interrupt-context requests inside fibre_scheduler_next (monitor Spec/IsrSpec.lean on the real code)',
                           'reason': why, 'ops': C06.lines_of(small), 'engine': 'isr', 'how_to_rerun': './check C06 --replay <this file> (same line protocol)'},
                          key='isr:' + C06.key_of(small))
        elif not why:
            n += 1
    ctx.cov['interrupt_clause_histories'] = len(hs)
    ctx.cov['interrupt_clause_histories_satisfying_monitor'] = n


def idle_decision_probe(ctx):
    """Interrupt requests that complete after the pass has taken its pick from the run queue (gap x of harness/h_isr.c:
    the harness is linked with --wrap=list_extract) but before it returns.  Such a request completed before the pass's
    final check - the check is the last thing the pass does before it decides how long the caller may sleep - so the pass
    must return the time it was given.  Implementation only (the gap is not an atomic operation, the model has no such
    step); judged by the property text."""
    import re, vlib
    from props import C06
    rng = vlib.Rng(ctx.seed * 11 + 5)
    exe = C06.harness(ctx)
    hs = []
    for call in ('A2', 'A1', 'E901', 'A3'):
        for pre in (['run 1', 'next 10'], ['run 1', 'run 2', 'next 10', 'next 11'], ['isr A1', 'next 10'], ['run 3', 'next 4294967290']):
            for T in (100, 2147483647, 4294967295, 4294967296 + 5):
                t = T if 'next 4294967290' not in pre else 4294967295
                hs.append(['reset', 'cfg 4 w w w', *pre, f'next {t} @x {call}', f'next {t + 1}'])
    for _ in range(60 if ctx.tier == 'quick' else 1500):          # sleepers pending: without the final check the pass would return their due time
        kinds = ' '.join(rng.choice(['w', 'w', 's%d' % rng.range(3, 40), 'y%d' % rng.range(1, 3)]) for _ in range(rng.range(2, 5)))
        t0 = rng.choice([10, 2147483600, 4294967200, 8589934500])
        h = ['reset', f'cfg {rng.choice([1, 2, 4])} {kinds}']
        t = t0
        for _ in range(rng.range(1, 4)):
            h.append(rng.choice([f'run {rng.range(1, 3)}', f'isr A{rng.range(1, 3)}', f'next {t}']))
            t += rng.range(0, 3)
        h += [f'next {t}', f'next {t + 1} @x {rng.choice(["A1", "A2", "A3", "E7"])}', f'next {t + 2}']
        hs.append(h)
    lines = vlib.run_exe([exe], ''.join('\n'.join(h) + '\n--\n' for h in hs), 600)
    impl = vlib.split_histories(lines)
    if len(impl) < len(hs):
        ctx.notes.append('idle-decision probe: the harness stopped early: ' + ' | '.join(lines[-3:])[:300])
    bad, fired = None, 0
    for h, out in zip(hs, impl):
        lines = out if isinstance(out, list) else str(out).split('\n')
        for l in lines:
            m = re.search(r'\bX\b.*?=(\d)/\d+.*?next\((\d+)\):self=(-?\d+):wake=(\d+)', l)
            if not m:
                if l.startswith('!!'):
                    bad = bad or (h, l, 'crash')
                continue
            fired += 1
            if m.group(1) == '1' and m.group(3) == '-1' and int(m.group(4)) != int(m.group(2)) % (1 << 32):
                bad = bad or (h, l, f'an interrupt request accepted after the scheduler took its pick from the run queue (nothing to dispatch) and before the pass '
                              f'returned is not seen: the pass returns {m.group(4)} instead of the time {int(m.group(2)) % (1 << 32)} it was given')
    ctx.cov['idle_decision_probe'] = {'histories': len(hs), 'interrupts_fired_at_the_gap': fired}
    for h in hs:
        ctx.count(('xprobe', tuple(h)))
    if bad and not ctx.violations:
        h, l, why = bad
        ctx.violation({'obligation': 'returned wake-up time: an interrupt-context run request that completed before the pass\'s final check (real fibre.c, interrupt fired from a list_extract wrapper inside fibre_scheduler_next)',
                       'reason': why, 'ops': h, 'observed': l, 'engine': 'isr (implementation only)',
                       'how_to_rerun': 'h_isr (props.C06.harness) < ops'}, key='xprobe:' + ' | '.join(h))
    elif fired == 0:
        ctx.broken.append('correspondence: the idle-decision probe never fired (fibre_scheduler_next no longer takes its pick with list_extract(&kernel.runq)): '
                          'interrupt requests between the dispatch decision and the return are not exercised')


def run(ctx):
    # tie T (second generation): one iteration of fibre_posix.c's main loop is regenerated from the source and proved equal to
    # Model.MainLoop.posixSleep (Props/C03Tie.lean) on every 32-bit clock reading / returned time
    import regen
    for u, e in regen.regen(['MainLoopSeq', 'FibreSeq']):
        ctx.broken.append(f'tie T: tools/c2lean2.py cannot translate unit {u}: {e}')
    tie_ax = lambda t, a: t.startswith('Librfn.C03.Tie.') and a.startswith('Librfn.C03.Tie.mainloop_generated._native.bv_decide.ax_') or \
        (t == 'Librfn.C03.Tie.mainloop_tie' and a.startswith('Librfn.C03.Tie.mainloop_tie._native.bv_decide.ax_')) or \
        (t.startswith('Librfn.C03.TieWake.') and '._native.bv_decide.ax_' in a and a.startswith('Librfn.C03.TieWake.get_next_wakeup_generated')) or \
        (t.startswith('Librfn.C03.TieNext.') and '._native.bv_decide.ax_' in a and a.startswith('Librfn.C03.TieNext.scheduler_next_generated'))
    # get_next_wakeup (the value fibre_scheduler_next returns when nothing yielded) regenerated from fibre.c and proved to be the model's
    # getNextWakeup (Props/C03TieWake.lean); a changed interface of the generated definition breaks the tie without building it
    wake_mods, wake_req = ['Librfn.Props.C03TieWake'], ['Librfn.C03.TieWake.get_next_wakeup_generated', 'Librfn.C03.TieWake.get_next_wakeup_generated_mem',
                                                         'Librfn.C03.TieWake.get_next_wakeup_generated_ret', 'Librfn.C03.TieWake.get_next_wakeup_tie']
    changed = regen.signature_changes('FibreSeq', only=['get_next_wakeup'])
    if changed:
        ctx.broken.append('tie T: the interface of the regenerated get_next_wakeup differs from the one Props/C03TieWake.lean is stated against (' + '; '.join(changed)[:600] + ')')
        wake_mods, wake_req = [], []
    # the control skeleton of fibre_scheduler_next itself (helpers, messageq_empty and the dispatched entry point external): Props/C03TieNext.lean
    changed = regen.signature_changes('FibreSeq', only=['fibre_scheduler_next'])
    if changed:
        ctx.broken.append('tie T: the interface of the regenerated fibre_scheduler_next differs from the one Props/C03TieNext.lean is stated against (' + '; '.join(changed)[:600] + ')')
    else:
        wake_mods = wake_mods + ['Librfn.Props.C03TieNext']
        wake_req = wake_req + ['Librfn.C03.TieNext.scheduler_next_generated', 'Librfn.C03.TieNext.scheduler_next_tie']
    sc.run_sched(ctx, META, ['Librfn.Props.C03', 'Librfn.Props.C06', 'Librfn.Props.C03Tie'] + wake_mods,
                 REQUIRED + ['Librfn.C06.wakeup_with_isr', 'Librfn.C06.model_refines_monitor', 'Librfn.C03.Tie.mainloop_generated', 'Librfn.C03.Tie.mainloop_tie'] + wake_req,
                 'C03', allow_extra_axioms=tie_ax)
    ctx.cov['tie_T_generated_units'] = {'MainLoopSeq': ['fibre_scheduler_main_loop (one iteration; time_now, fibre_scheduler_next, usleep external)'],
                                        'FibreSeq': ['get_next_wakeup (messageq_empty external)', 'fibre_scheduler_next (control skeleton; helpers, messageq_empty and the dispatched entry point external)']}
    if not ctx.violations and 'VERIF_OPT' not in os.environ and 'VERIF_CFG' not in os.environ:
        idle_decision_probe(ctx)
        isr_clause(ctx)          # the extra passes (-O2 / no-atomics builds) repeat the scheduler histories only; C06 owns the interrupt engine


def replay(ctx, path):
    import json, re, vlib
    r = json.load(open(path))
    if str(r.get('key', '')).startswith('xprobe:'):
        from props import C06
        exe = C06.harness(ctx)
        lines = vlib.run_exe([exe], '\n'.join(r['ops']) + '\n--\n', 60)
        bad = False
        for op, l in zip(r['ops'], lines):
            print(f'{op:40s} -> {l}')
            m = re.search(r'\bX\b.*?=(\d)/\d+.*?next\((\d+)\):self=(-?\d+):wake=(\d+)', l)
            if m and m.group(1) == '1' and m.group(3) == '-1' and int(m.group(4)) != int(m.group(2)) % (1 << 32):
                bad = True
        if bad:
            print(f'VIOLATION property=C03 replay={path}')
        return 1 if bad else 0
    return sc.replay_sched(ctx, path)

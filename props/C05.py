"""C05 — lock-free ring buffer: each byte once, in order, one producer / one consumer, every interleaving.

Tie S (tools/skeleton.py: atomic-operation skeleton of ringbuf.c extracted from clang's AST, compared with
the model's own table by a `decide` obligation) + tie D (the unmodified ringbuf.c run under explicit schedules
through harness/shim + harness/baton.h, per-segment log compared with the Lean interleaving model and with an
independent FIFO/linearisation oracle written from the property text)."""
import glob, hashlib, json, os, re, sys
from concurrent.futures import ThreadPoolExecutor
import vlib
import skeleton

META = {
    'engine': 'lean-S',
    'technique': 'Lean 4 inductive invariant over an interleaving model of ringbuf.c at atomic-operation granularity (all lengths, all schedules, all bytes, all start positions); '
                 'model tied to the source by the extracted atomic-operation skeleton (decide obligation) and by schedule-controlled differential runs of the unmodified code',
    'level_text': 'For every buf_len from 2 to 2^32, every start position readi = writei < buf_len, every byte value and every interleaving of one producer (ringbuf_put / ringbuf_putchar = put iterated) '
                  'with one consumer (ringbuf_get / ringbuf_empty) at atomic-operation granularity: the bytes returned by successful gets are a prefix of the bytes of the successful puts (in order, once, as 0..255), '
                  'a put fails only when buf_len-1 bytes are unread at its load of readi, get returns -1 / empty returns true only when the ring is empty at their load of writei, every index used is < buf_len, '
                  'a payload store never hits an unread cell, and the producer\'s payload store and the consumer\'s payload load never address the same cell at the same time. Proved in Lean about the model (kernel-only).',
    'level_note': 'Tie T2 (DESIGN 12): ringbuf_put/get/empty/init are regenerated from ringbuf.c each run (pointers = 64-bit values, storage = byte memory) and proved equal to what the interleaving model computes when one thread runs the call alone - index wrap, full/empty comparison, addressed cell, result, published index (Props/C05Tie.lean: bv_decide certificates for the *_generated theorems only). Trusted: Lean kernel (standard axioms); the hand model Model/RingConc.lean, tied to the current ringbuf.c/ringbuf.h (a) statically: access sites, their order, branch context, memory orders and _Atomic-ness '
                  'of the fields extracted by tools/skeleton.py from clang\'s AST must equal the model\'s table (skeleton_matches_ring), all orders seq_cst (ring_ord_all_seqcst), readi/writei _Atomic and only accessed atomically (ring_fields_atomic); '
                  '(b) dynamically by sampling: per-segment log (operation, field, memory order, value, shared state incl. storage and guard bytes) of the real code equals the model\'s on random and, in the thorough tier, all '
                  'non-equivalent schedules of small scenarios. Sequentially consistent interleaving semantics (justified for the C program by DRF-SC given all-seq_cst atomics: C07); buf_len <= 2^32 (indices are unsigned int; '
                  'a larger ring silently uses 2^32 cells - outside the claim); termination of ringbuf_putchar is not claimed; evaluation order of the two loads in ringbuf_empty is taken from the source order (confirmed by the run-time log for the compiled harness).',
    'design_ref': '§6 C05',
}
REQUIRED = ['Librfn.C05.' + t for t in (
    'wrap_eq', 'init_inv', 'step_inv', 'ring_inv', 'ring_inv_acts', 'delivered_in_order_once', 'get_returns_unsigned_byte', 'put_true_appends',
    'put_fails_only_if_full', 'get_minus1_only_if_empty', 'empty_true_only_if_empty', 'indices_in_bounds', 'no_overwrite_before_read',
    'ring_no_adjacent_conflict', 'skeleton_matches_ring', 'ring_ord_all_seqcst', 'ring_fields_atomic', 'ring_payload_inside_publish')]
LENS = [2, 3, 4, 5, 16]


# ----------------------------------------------------------------------------------------------- histories
def lines_of(h):
    return ['ring %d %d %d' % (h['len'], h['start'], h['fill']), 'prod ' + ' '.join(h['prod']), 'cons ' + ' '.join(h['cons']),
            'run ' + ' '.join(h['sched']), 'drain']


def hkey(h):
    return 'ring:' + hashlib.sha1('\n'.join(lines_of(h)).encode()).hexdigest()[:16]


class ByteSource:
    """cycles through every byte value (random order) so that a campaign covers 0..255, sign boundary first"""
    def __init__(self, rng):
        self.rng, self.pool = rng, [0, 255, 128, 127, 1, 254]
    def next(self):
        if not self.pool:
            self.pool = self.rng.shuffle(list(range(256)))
        return self.pool.pop()


def gen_full_ring_history(rng, bs):
    """putchar against a full (or nearly full) small ring under fine-grained free preemption: the ring is first filled by
    completed puts, then every segment boundary is a possible preemption point"""
    L = rng.choice([2, 2, 3, 3, 3, 4])
    pre = L - 1 if rng.chance(2, 3) else L - 2
    ntail = rng.range(2, 4)
    prod = ['put:%d' % bs.next() for _ in range(pre)]
    prod += [('putchar:%d' if rng.chance(3, 4) else 'put:%d') % bs.next() for _ in range(ntail)]
    cons = ['get'] * (ntail + rng.range(0, 1))
    sched = ['0c'] * pre
    den = rng.choice([2, 2, 3, 4])
    t = rng.below(2)
    for _ in range(rng.range(6, 7 * (ntail + len(cons)))):
        if rng.chance(1, den):
            t ^= 1
        sched.append(str(t))
    return {'len': L, 'start': rng.choice([0, L - 1, rng.below(L)]), 'fill': rng.below(256), 'prod': prod, 'cons': cons, 'sched': sched, 'style': 'putchar-full'}


def gen_history(rng, bs):
    if rng.chance(1, 4):
        return gen_full_ring_history(rng, bs)
    L = rng.choice([2, 2, 3, 3, 4, 5, 16])
    start = rng.choice([0, L - 1, max(L - 2, 0), rng.below(L)])
    style = rng.choice(['free', 'free', 'bursty', 'isr-cons', 'isr-prod'])
    if L == 16:
        npr = rng.choice([rng.range(1, 8), rng.range(14, 20), rng.range(30, 40)])
    else:
        npr = rng.range(1, 2 * L + 3)
    ncs = max(1, npr + rng.range(-3, 3))
    use_putchar = style in ('free', 'bursty', 'isr-cons') and rng.chance(1, 3)
    prod = []
    for _ in range(npr):
        prod.append(('putchar:%d' if use_putchar and rng.chance(1, 3) else 'put:%d') % bs.next())
    if use_putchar:
        ncs = npr + rng.range(1, 3)
    cons = ['empty' if rng.chance(1, 6) else 'get' for _ in range(ncs)]
    if use_putchar:
        cons += ['get'] * (npr - sum(1 for c in cons if c == 'get') + 1)
    sched = []
    nseg = 7 * (len(prod) + len(cons))
    if style in ('free', 'bursty'):
        den = rng.choice([2, 3]) if style == 'free' else rng.choice([6, 12])
        t = rng.below(2)
        for _ in range(rng.range(nseg // 2, nseg)):
            if rng.chance(1, den):
                t ^= 1
            sched.append(str(t) + ('c' if rng.chance(1, 12) else ''))
    else:
        # interrupt style: `main` is preempted at segment boundaries by complete calls of the other side
        main = 0 if style == 'isr-cons' else 1
        intr = 1 - main
        for _ in range(rng.range(nseg // 3, nseg // 2 + 2)):
            sched.append(str(main))
            if rng.chance(1, 3):
                sched += ['%dc' % intr] * rng.range(1, 3)
        for _ in range(max(len(prod), len(cons)) + 1):
            sched += ['%dc' % main, '%dc' % intr]
    return {'len': L, 'start': start, 'fill': rng.below(256), 'prod': prod, 'cons': cons, 'sched': sched, 'style': style}


# ----------------------------------------------------------------------------------------------- oracle
def oracle(h, out):
    """Independent reference written from the property text; looks only at the implementation's output.
    Sound (never complains about a linearisable run): occupancy bounds are computed from call/return order.
    Returns None or a description of the violated clause."""
    L = h['len']
    body = list(out)
    while body and body[0] == 'ok':
        body.pop(0)
    pcalls, ccalls, cur = [], [], {0: None, 1: None}
    stuck, ended, drain = False, False, None
    for i, ln in enumerate(body):
        if ln.startswith('!!'):
            return 'implementation crashed or hung: ' + ln
        if ' g=BAD' in ln:
            return 'guard bytes outside the caller\'s buf_len bytes were modified: ' + ln
        if ln == 'stuck':
            stuck = True; continue
        if ln == 'end':
            ended = True; continue
        if ln.startswith('drain'):
            drain = ln; continue
        m = re.match(r'T([01]) (\S+)(?: (\S+))?(?: (\S+))?', ln.split(' | ')[0])
        if not m:
            return 'unparsable output line: ' + ln
        t, ev = int(m.group(1)), m.group(2)
        if ev == 'call':
            cur[t] = {'kind': m.group(3), 'byte': int(m.group(4)) if t == 0 else None, 's': i, 'e': None, 'res': None}
            (pcalls if t == 0 else ccalls).append(cur[t])
        elif ev == 'ret':
            c = cur[t]
            if c is None or c['e'] is not None:
                c = {'kind': m.group(3), 'byte': None, 's': i, 'e': None, 'res': None}
                (pcalls if t == 0 else ccalls).append(c)
            c['e'] = i
            c['res'] = int(m.group(4)) if m.group(4) is not None else 1
            cur[t] = None
    if not ended or drain is None:
        return 'run did not finish (no end/drain line)'
    m = re.match(r'drain((?: -?\d+)*) \| empty=(\d) r=(\d+) w=(\d+) g=(\w+)', drain)
    if not m:
        return 'unparsable drain line: ' + drain
    drained = [int(x) for x in m.group(1).split()]
    if m.group(2) != '1' or m.group(3) != m.group(4):
        return 'ring not empty after draining it: ' + drain
    if m.group(5) != 'ok':
        return 'guard bytes modified: ' + drain
    okputs = [c for c in pcalls if c['e'] is not None and c['res'] == 1]
    inflight = [c for c in pcalls if c['e'] is None]
    okgets = [c for c in ccalls if c['kind'] == 'get' and c['e'] is not None and c['res'] != -1]
    for c in pcalls + ccalls:
        if c['e'] is not None and c['kind'] in ('put', 'empty') and c['res'] not in (0, 1):
            return f'{c["kind"]} returned {c["res"]}'
    # values: exactly the bytes of the successful puts, in order, as 0..255, nothing invented/lost/duplicated
    sent = [c['byte'] for c in okputs]
    gotc = [c['res'] for c in okgets]
    got = gotc + drained
    for v in got:
        if not 0 <= v <= 255:
            return f'get returned {v}: not an unsigned byte value'
    # calls cut short by the harness (only after "stuck") may or may not have taken effect
    maybe = sent + [c['byte'] for c in inflight]
    cands = [sent, maybe]
    if any(c['kind'] == 'get' and c['e'] is None for c in ccalls):
        cands += [x[:len(gotc)] + x[len(gotc) + 1:] for x in (sent, maybe) if len(x) > len(gotc)]
    if got not in cands:
        k = next((i for i, (a, b) in enumerate(zip(got, maybe)) if a != b), min(len(got), len(maybe)))
        return f'bytes delivered {got} are not the bytes successfully put {sent} (first difference at byte #{k})'
    allputs = [c for c in pcalls if c['kind'] in ('put', 'putchar')]
    succ_or_inflight = [c for c in allputs if c['e'] is None or c['res'] == 1]
    for k, g in enumerate(okgets):
        if k < len(succ_or_inflight) and succ_or_inflight[k]['s'] > g['e']:
            return f'get #{k} returned a byte before the put that wrote it was called'
    # a put fails only if buf_len-1 bytes were unread at some instant during the call
    for c in pcalls:
        if c['kind'] == 'put' and c['e'] is not None and c['res'] == 0:
            P = sum(1 for p in okputs if p['e'] < c['s'])
            G = sum(1 for g in okgets if g['e'] < c['s'])
            if P - G < L - 1:
                return f'put of {c["byte"]} failed although at most {P - G} < buf_len-1 = {L - 1} bytes were unread during the call'
    # get returns -1 / empty returns true only if the ring was empty at some instant during the call
    for c in ccalls:
        if c['e'] is not None and ((c['kind'] == 'get' and c['res'] == -1) or (c['kind'] == 'empty' and c['res'] == 1)):
            P = sum(1 for p in okputs if p['e'] < c['s'])
            G = sum(1 for g in okgets if g['e'] < c['s'])
            if P - G > 0:
                return f'{c["kind"]} reported an empty ring although at least {P - G} byte(s) were unread throughout the call'
    if stuck:
        if not inflight or inflight[0]['kind'] != 'putchar':
            return 'a call other than a spinning ringbuf_putchar never returned'
        if len(okputs) - len(okgets) < L - 1:
            return f'ringbuf_putchar kept spinning although only {len(okputs) - len(okgets)} < buf_len-1 bytes were unread'
    return None


# ----------------------------------------------------------------------------------------------- running
def harness(ctx):
    R = vlib.REPO
    exe, log = ctx.cc('h_ring', [os.path.join(vlib.VERIF, 'harness/h_ring.c'), R + '/librfn/ringbuf.c'],
                      ['-I' + os.path.join(vlib.VERIF, 'harness/shim'), '-D_GNU_SOURCE', '-pthread'])
    if not exe:
        raise vlib.Unbuildable('ring harness does not compile against the library sources: ' + log[-1500:])
    return exe


def batch_text(hs):
    return ''.join('reset\n' + '\n'.join(lines_of(h)) + '\n--\n' for h in hs)


def run_impl(exe, hs, timeout=40, cpu=None):
    """outputs per history; a crash/hang ends the process, so the remaining histories are re-run in a new one"""
    outs, rest = [], list(hs)
    cmd = (['env', 'BATON_CPU=%d' % cpu] if cpu is not None else []) + [exe]
    while rest:
        lines = vlib.run_exe(cmd, batch_text(rest), timeout=timeout)
        crashed = bool(lines) and lines[-1].startswith('!!')
        got = vlib.split_histories(lines)[:len(rest)]     # when crashed the last element is the partial history ending in the '!!' line
        outs += got
        if not crashed:
            outs += [['!! missing output']] * (len(rest) - len(got))
            break
        rest = rest[len(got):]
    return outs


def run_model(ctx, hs):
    out = ctx.run_model(['ring'], batch_text(hs)).split('\n')
    if out and out[-1] == '':
        out.pop()
    return vlib.split_histories(out)[:len(hs)]


def shrink(ctx, exe, h, bad):
    """delta-debug schedule, then both scripts, keeping `bad(h)` true"""
    def test(field):
        def fails(cand):
            hh = dict(h); hh[field] = list(cand)
            return bad(hh)
        return fails
    for field in ('sched', 'prod', 'cons', 'sched'):
        if len(h[field]) > 1:
            h = dict(h); h[field] = vlib.ddmin(h[field], test(field), max_tests=120)
    # an empty schedule (pure 0,1,0,1 alternation) is the simplest of all
    for field in ('sched',):
        hh = dict(h); hh[field] = []
        if bad(hh):
            h = hh
    return h


def report_violation(ctx, exe, h, reason):
    def bad(hh):
        o = run_impl(exe, [hh], timeout=20)[0]
        return oracle(hh, o) is not None
    hs = shrink(ctx, exe, h, bad)
    out = run_impl(exe, [hs], timeout=20)[0]
    why = oracle(hs, out) or reason
    model = []
    try:
        model = run_model(ctx, [hs])[0]
    except vlib.Infra:
        pass
    k = vlib.diff_streams(out, model)
    ctx.violation({'obligation': 'ring buffer: implementation vs FIFO/linearisation reference (property text)', 'reason': why,
                   'ops': ['reset'] + lines_of(hs), 'history': {k_: v for k_, v in hs.items()},
                   'observed': out[-14:], 'model_at_first_difference': model[max(0, (k or 0) - 1):(k or 0) + 2] if k is not None else 'same as model',
                   'observed_at_first_difference': out[max(0, (k or 0) - 1):(k or 0) + 2] if k is not None else None,
                   'engine': 'ring', 'how_to_rerun': f'./check {ctx.pid} --replay <this file>'}, key=hkey(hs))


def run_impl_parallel(exe, hs, workers=1):
    if workers <= 1 or len(hs) < 4 * workers:
        return run_impl(exe, hs, timeout=40 if len(hs) <= 2000 else 900)
    chunks = [hs[i::workers] for i in range(workers)]
    with ThreadPoolExecutor(workers) as ex:
        res = list(ex.map(lambda a: run_impl(exe, a[1], timeout=900, cpu=a[0] % (os.cpu_count() or 1)), enumerate(chunks)))
    impl = [None] * len(hs)
    for w, r in enumerate(res):
        for j, o in enumerate(r):
            impl[w + j * workers] = o
    return impl


# ----------------------------------------------------------------------------------------------- systematic exploration
EXPLORE_MAXB = 14        # longest uninterrupted run of one thread inside the explored part of a schedule (segments)


def explore_scenarios():
    """small scenarios around a full ring: buf_len 2-3, pre-filled by completed puts to buf_len-1 or buf_len-2, producer then
    runs 2-3 putchar/put, consumer 2-3 gets.  Bytes are pairwise distinct and differ from the fill byte, so a lost, duplicated
    or reordered byte is visible."""
    out = []
    for L in (2, 3):
        for pre in (L - 1, L - 2):
            for si, (shape, ncons) in enumerate(((('putchar', 'putchar'), 2), (('putchar', 'putchar', 'put'), 3), (('put', 'putchar', 'putchar'), 3))):
                for start in ((0, L - 1)[(si + pre) % 2],):
                    prod = ['put:%d' % (i + 1) for i in range(pre)] + ['%s:%d' % (k, 101 + i) for i, k in enumerate(shape)]
                    out.append({'len': L, 'start': start, 'fill': 0xEE, 'prod': prod, 'cons': ['get'] * ncons, 'pre': pre})
    return out


def explore_history(sc, blocks):
    """schedule = complete the pre-fill puts, then the given blocks (thread, number of single segments), then finish by
    alternating complete calls (consumer first, so a spinning putchar always gets its chance)"""
    sched = ['0c'] * sc['pre']
    for t, n in blocks:
        sched += [str(t)] * n
    sched += ['1c', '0c'] * (max(len(sc['prod']), len(sc['cons'])) + 1)
    h = {k: v for k, v in sc.items() if k != 'pre'}
    h['sched'] = sched
    h['style'] = 'explore'
    return h


def overshoots(sc, blocks, out):
    """did some explored block ask a thread to run after it had finished?  (then a shorter block gives the same run)"""
    body = [l for l in out if l != 'ok']
    i, need = 0, sc['pre']
    while need and i < len(body):
        if body[i].startswith('T0 ret'):
            need -= 1
        i += 1
    n = sum(b[1] for b in blocks)
    return any(' idle ' in l for l in body[i:i + n]) or len(body) < i + n


def explore(ctx, exe, rng, budget_per_scenario, max_switches, workers=12, with_model=False):
    """Implementation-driven systematic exploration: for each small scenario, ALL schedules whose explored part consists of at
    most `max_switches`+1 uninterrupted runs of 1..EXPLORE_MAXB single segments (i.e. at most `max_switches` preemptions at
    arbitrary segment boundaries, in either direction), each executed on the real code and judged by the FIFO reference only.
    Nothing here uses the model's idea of how many operations a call performs: whether a run is longer than the thread's
    life is read off the implementation's own log.  Deeper levels are sampled when they exceed the budget."""
    total, levels = 0, {}
    for sc in explore_scenarios():
        frontier, spent = [[]], 0
        for depth in range(0, max_switches + 2):
            if depth == 0:
                cands = [[]]
            else:
                cands = [pre + [(t, n)] for pre in frontier for t in (0, 1) if not pre or pre[-1][0] != t for n in range(1, EXPLORE_MAXB + 1)]
            if not cands:
                break
            sampled = False
            if spent + len(cands) > budget_per_scenario:
                cands = rng.shuffle(cands)[:max(0, budget_per_scenario - spent)]
                sampled = True
            if not cands:
                break
            hs = [explore_history(sc, b) for b in cands]
            spent += len(hs); total += len(hs)
            levels[depth] = levels.get(depth, 0) + len(hs)
            outs = run_impl_parallel(exe, hs, workers)
            models = run_model(ctx, hs) if with_model else None
            for i, (h, o) in enumerate(zip(hs, outs)):
                why = oracle(h, o)
                if why is not None:
                    report_violation(ctx, exe, h, why)
                    ctx.cov['systematic_exploration'] = {'schedules': total, 'found_with_explored_runs': depth}
                    return total
                if with_model:
                    stats(ctx, h, o)
                    mo = models[i] if i < len(models) else ['!! missing']
                    if o != mo and not any(b.startswith('correspondence ring:') for b in ctx.broken):
                        k = vlib.diff_streams(o, mo)
                        ctx.broken.append(f'correspondence ring: model differs from implementation (implementation satisfies the FIFO reference) on {lines_of(h)}: '
                                          f'at output {k}: model={mo[k:k + 2] if k is not None else None} impl={o[k:k + 2] if k is not None else None}')
            frontier = [b for b, o in zip(cands, outs) if not overshoots(sc, b, o)] if depth else [[]]
            if sampled:
                break
    ctx.cov['systematic_exploration'] = {'schedules': total, 'schedules_by_number_of_explored_runs': {str(k): v for k, v in levels.items()},
                                         'scenarios': len(explore_scenarios()), 'max_run_length': EXPLORE_MAXB,
                                         'rule': 'buf_len 2-3 pre-filled to len-1/len-2, 2-3 putchar/put vs 2-3 get, every placement of up to %d preemptions (deepest level sampled to the budget)' % max_switches}
    return total


def check_histories(ctx, exe, hs, workers=1, stop_on_first=True):
    """impl vs oracle (violation) and impl vs model (correspondence).  Returns number of histories in full agreement."""
    if not hs:
        return 0
    impl = run_impl_parallel(exe, hs, workers)
    model = run_model(ctx, hs)
    agreed = 0
    for i, h in enumerate(hs):
        io = impl[i]
        mo = model[i] if i < len(model) else ['!! missing']
        why = oracle(h, io)
        stats(ctx, h, io)
        if why is not None:
            report_violation(ctx, exe, h, why)
            if stop_on_first:
                return agreed
            continue
        if io != mo:
            k = vlib.diff_streams(io, mo)
            if any(b.startswith('correspondence ring:') for b in ctx.broken):
                continue                       # one witness of the mismatch is enough; keep looking for a property violation
            ctx.broken.append(f'correspondence ring: model differs from implementation (implementation satisfies the FIFO reference) on {lines_of(h)}: '
                              f'at output {k}: model={mo[k:k + 2] if k is not None else None} impl={io[k:k + 2] if k is not None else None}')
            continue
        agreed += 1
    return agreed


def stats(ctx, h, out):
    c = ctx.cov
    hist = c.setdefault('histogram', {})
    def inc(k, n=1):
        hist[k] = hist.get(k, 0) + n
    inc('len=%d' % h['len']); inc('style=' + h.get('style', 'enum'))
    inc('start=last' if h['start'] == h['len'] - 1 else 'start=0' if h['start'] == 0 else 'start=mid')
    succ = 0
    for ln in out:
        if ln.startswith('T'):
            inc('segments')
            w = ln.split()
            if w[1] == 'ret':
                if w[2] == 'put':
                    inc('put_ok' if w[3] == '1' else 'put_full')
                    succ += w[3] == '1'
                elif w[2] == 'putchar':
                    inc('putchar_ok'); succ += 1
                elif w[2] == 'get':
                    inc('get_empty' if w[3] == '-1' else 'get_ok')
                    if w[3] != '-1':
                        ctx._bytes.add(int(w[3]))
                elif w[2] == 'empty':
                    inc('empty_true' if w[3] == '1' else 'empty_false')
            elif w[1] in ('load', 'store'):
                inc('atomic_' + w[1] + '_' + w[3])
        elif ln == 'stuck':
            inc('putchar_deadlock_runs')
    if succ + h['start'] >= h['len']:
        inc('histories_wrapping_the_index')
    ctx.count(tuple(lines_of(h)), nontrivial=succ > 0)


def enum_histories(ctx, L, start, prod, cons):
    text = 'reset\n' + '\n'.join(['ring %d %d 0' % (L, start), 'prod ' + ' '.join(prod), 'cons ' + ' '.join(cons), 'enum']) + '\n'
    out = ctx.run_model(['ring'], text).split('\n')
    scheds = [l[6:].split() for l in out if l.startswith('sched ')]
    if not any(l.startswith('enum-done') for l in out) or any('fuel' in l for l in out):
        raise vlib.Infra('schedule enumeration failed: ' + '\n'.join(out[-3:]))
    return [{'len': L, 'start': start, 'fill': 0xEE, 'prod': prod, 'cons': cons, 'sched': s, 'style': 'enum'} for s in scheds]


def load_corpus():
    hs = []
    for p in sorted(glob.glob(os.path.join(vlib.VERIF, 'corpus', 'C05', '*.json'))):
        hs.append(json.load(open(p))['history'])
    return hs


def seq_search(ctx, long_run):
    """Deep sequential search on the real ringbuf.c (no shim, -O2) in regions the interleaving harness cannot reach:
    rings larger than 64 KiB (index width) and, when something is already broken, more than 2^32 bytes through one
    ring of non-power-of-two length (free-running index roll-over).  Runs the cases in parallel."""
    import subprocess
    R = vlib.REPO
    exe, log = ctx.cc('h_ring_seq', [os.path.join(vlib.VERIF, 'harness/h_ring_seq.c'), R + '/librfn/ringbuf.c'], ['-O2'], san=False)
    if not exe:
        ctx.broken.append('correspondence: the sequential ring harness (public interface only) does not compile against the tree under check: ' + ' '.join(log.split())[-300:]); return
    cases = [(L, st, max(4 * L, 200000), ctx.seed) for L in (2, 3, 4, 5, 7, 16, 255, 256, 257, 4096, 65535, 65536, 65537, 70001, 131073, 200003)
             for st in (0, L - 1, L // 2)]
    # rings whose indices pass 2^31 (address space only): start just below 2^31 and just below the end
    for L in (0x80000001, 0xC0000000, 0xFFFFFFFF, 0x100000000):
        cases += [(L, st, 4000, ctx.seed) for st in (0x7ffffff0, L - 9, 0)]
    if long_run:
        # > 2^32 bytes through small non-power-of-two rings, several seeds each (data in flight at the roll-over is a matter of phase)
        cases += [(L, 1, (1 << 32) + 100000, ctx.seed * 16 + k) for L in (3, 5, 7) for k in range(4)] + [(6, 1, (1 << 32) + 100000, ctx.seed)]
    procs = []
    for (L, st, n, sd) in cases:
        procs.append(((L, st, n), subprocess.Popen([exe, str(L), str(st), str(n), str(sd)], stdout=subprocess.PIPE, stderr=subprocess.PIPE, text=True)))
        while sum(1 for _, p in procs if p.poll() is None) >= 14:
            import time; time.sleep(0.05)
    moved = 0
    for (L, st, n), p in procs:
        try:
            out, err = p.communicate(timeout=1500)
        except subprocess.TimeoutExpired:
            p.kill(); out, err = 'FAIL timeout', ''
        if out.startswith('OK'):
            moved += int(out.split()[1])
        elif not ctx.violations:
            why = out.strip() or f'crash rc={p.returncode} {err[-200:]}'
            ctx.violation({'obligation': 'ring buffer: sequential bursts on the real code vs FIFO reference (deep search)', 'reason': why,
                           'how_to_rerun': f'h_ring_seq {L} {st} {n} {ctx.seed}', 'buf_len': L, 'start_index': st, 'bytes': n},
                          key=f'seq:{L}:{st}:' + why.split(' len=')[0])
    ctx.cov['sequential_deep_search'] = {'cases': len(cases), 'bytes_moved': moved, 'crossed_2^32_bytes': long_run}


def run(ctx):
    rng = vlib.Rng(ctx.seed)
    ctx._bytes = set()
    for unit, err in skeleton.regen_skeleton(['ringbuf']):
        ctx.broken.append(f'tie S: atomic-operation skeleton of {unit} could not be extracted from the source: {err}')
    sys.path.insert(0, os.path.dirname(os.path.abspath(__file__)))
    import tie_common
    tie_common.prove(ctx, ['RingSeq'], ['Librfn.Props.C05'], REQUIRED, 'Librfn.Props.C05Tie', 'Librfn.C05.Tie')
    exe = harness(ctx)
    if not ctx.build_model():
        return
    bs = ByteSource(rng)
    corpus = load_corpus()
    agreed = check_histories(ctx, exe, corpus)
    n = 1000 if ctx.tier == 'quick' else 6000
    hs = [gen_history(rng, bs) for _ in range(n)]
    if not ctx.violations:
        agreed += check_histories(ctx, exe, hs, workers=1 if ctx.tier == 'quick' else 8)
    total = len(corpus) + len(hs)
    if ctx.tier == 'thorough' and not ctx.violations:
        ex = 0
        for L in (2, 3):
            for start in range(L):
                for prod, cons in ((['put:1', 'put:2', 'put:3'], ['get', 'get', 'get']),
                                   (['put:200', 'put:128', 'put:255'], ['get', 'empty', 'get', 'get']),
                                   (['put:1', 'put:2', 'put:3', 'put:4'], ['get', 'get', 'get', 'get'])):
                    if ctx.violations:
                        break
                    eh = enum_histories(ctx, L, start, prod, cons)
                    ex += len(eh); total += len(eh)
                    agreed += check_histories(ctx, exe, eh, workers=12)
        ctx.cov['exhaustive'] = (f'all {ex} schedules (up to commuting of independent segments) of 3 puts || 3 gets, 3 puts || get/empty/get/get and 4 puts || 4 gets '
                                 'on buf_len 2 and 3 from every start index')
    if ctx.tier == 'thorough' and not ctx.violations:
        nx = explore(ctx, exe, rng, budget_per_scenario=12000, max_switches=4, with_model=True)
        total += nx
        if not ctx.violations and not any(b.startswith('correspondence ring:') for b in ctx.broken):
            agreed += nx
    if ctx.broken and not ctx.violations:
        # proofs or correspondence broke: systematic exploration of small full-ring scenarios on the real code ...
        explore(ctx, exe, rng, budget_per_scenario=6500 if ctx.tier == 'quick' else 12000, max_switches=4)
    if ctx.broken and not ctx.violations:
        # ... then a deeper random search, both against the reference only
        deep = [gen_history(rng, bs) for _ in range(3000 if ctx.tier == 'quick' else 20000)]
        outs = run_impl(exe, deep, timeout=300)
        for h, o in zip(deep, outs):
            why = oracle(h, o)
            if why is not None:
                report_violation(ctx, exe, h, why)
                break
        ctx.cov['deep_search_histories'] = len(deep)
    if not ctx.violations:       # rings up to 200 003 bytes every time (index-width bugs in locals are invisible to tie S); > 2^32 bytes only when something broke
        seq_search(ctx, long_run=bool(ctx.broken))
    ctx.cov['traces_validated_against_impl'] = agreed
    ctx.cov['histories_run'] = total
    ctx.cov['byte_values_delivered'] = len(ctx._bytes)
    for h in hs[:2] + hs[-1:]:
        ctx.sample({k: (v if k != 'sched' else ' '.join(v)[:120]) for k, v in h.items()})
    ctx.cov['rule'] = ('history = (buf_len in {2,3,4,5,16}, start index incl. buf_len-1, storage fill byte, producer script of put/putchar over all byte values, consumer script of get/empty, '
                       'schedule of segments: free preemption, bursty, interrupt-style run-to-completion in either direction, and putchar against a pre-filled full ring with fine-grained preemption); distinct = distinct history text; non-trivial = at least one byte was put successfully')
    ctx.assumptions.append(META['level_note'])


def replay(ctx, path):
    r = json.load(open(path))
    if 'history' not in r:
        print('replay names a broken obligation, not an input:', r.get('obligation'))
        return 1
    h = r['history']
    exe = harness(ctx)
    if not ctx.build_model():
        return 2
    out = run_impl(exe, [h], timeout=30)[0]
    mo = run_model(ctx, [h])[0]
    why = oracle(h, out)
    for ln in out:
        print('impl :', ln)
    k = vlib.diff_streams(out, mo)
    print('reference verdict:', why or 'ok')
    print('model:', 'SAME' if k is None else f'DIFFERS at output {k}: model={mo[k:k + 2]} impl={out[k:k + 2]}')
    return 0 if (why is None and k is None) else 1

"""C16 — bit-counting helpers equal their mathematical definitions (tie T + bv_decide + kernel lemmas)."""
import os, re
import vlib
from props import pure_common as pc

META = {
    'engine': 'lean-T',
    'technique': 'Lean 4 theorems (bv_decide + kernel lemmas) about BitVec definitions regenerated from bitops.c / constexpr.h by a clang-typed-AST translator',
    'level_text': 'For every 32-bit x and every 64-bit c: bitcnt/clz/ctz/ilog2 and const_pop/const_lssb, as translated from the '
                  'current source by tools/c2lean.py, equal popcount (countP of set bits), leading/trailing zero counts (arithmetic '
                  'characterisation), highest-set-bit position and lowest-set-bit index (-1 at 0). Unbounded-in-the-domain proof; the '
                  'translator is validated on every run by running generated definitions against compiled C.',
    'level_note': 'Trusted: Lean kernel; bv_decide certificate axioms for bitcnt_eq_popSum, clz_eq, ctz_eq, const_pop_eq_popSum, const_lssb_eq; '
                  'tools/c2lean.py + clang 14 typed AST (validated differentially each run); assert(x) in ilog2 modelled as hypothesis x != 0; '
                  'compile-time-constant clause checked by _Static_assert samples compiled with gcc, not proved.',
    'design_ref': '§6 C16',
}
REQUIRED = ['Librfn.C16.helpers_total', 'Librfn.C16.regdump_field_extraction', 'Librfn.C16.bitcnt_is_popcount', 'Librfn.C16.clz_char', 'Librfn.C16.ctz_char', 'Librfn.C16.ilog2_char',
            'Librfn.C16.const_pop_is_popcount', 'Librfn.C16.const_lssb_char']


def ref(op, x):
    if op in ('bitcnt', 'const_pop'):
        return bin(x).count('1')
    w = 32
    if op == 'clz':
        return w - x.bit_length()
    if op == 'ctz':
        return (x & -x).bit_length() - 1 if x else 32
    if op == 'ilog2':
        return x.bit_length() - 1
    if op == 'const_lssb':
        return (x & -x).bit_length() - 1 if x else -1


def gen_inputs(rng, tier):
    xs32 = {0, 1, 2, 3, 0xffffffff, 0x80000000, 0x7fffffff, 0x55555555, 0xaaaaaaaa, 0x77777777, 0x88888888, 0x0f0f0f0f, 0x01010101}
    for i in range(32):
        xs32 |= {1 << i, (1 << i) - 1, 0xffffffff ^ (1 << i), (0xffffffff << i) & 0xffffffff}
        for j in range(i):
            xs32.add((1 << i) | (1 << j))
    n = 400 if tier == 'quick' else 5000
    for _ in range(n):
        r = rng.next() & 0xffffffff
        xs32 |= {r, r & (rng.next() & 0xffffffff), (r << rng.below(32)) & 0xffffffff, r >> rng.below(32)}
    xs64 = {0, 1, (1 << 64) - 1, 1 << 63, 1 << 32, 0xffffffff, 0xffffffff00000000}
    for i in range(64):
        xs64 |= {1 << i, ((1 << 64) - 1) ^ (1 << i), ((1 << 64) - 1 << i) & ((1 << 64) - 1)}
        for j in range(0, i, 3):
            xs64.add((1 << i) | (1 << j))
    for _ in range(n):
        r = rng.next()
        xs64 |= {r, r & rng.next(), (r << rng.below(64)) & ((1 << 64) - 1), r >> rng.below(64)}
    lines = []
    for x in sorted(xs32):
        for op in ('bitcnt', 'clz', 'ctz') + (('ilog2',) if x else ()):
            lines.append((op, x))
    for x in sorted(xs64):
        lines += [('const_pop', x), ('const_lssb', x)]
    return lines


def static_asserts(ctx, rng):
    """the 'same value as a compile-time constant' clause: _Static_assert over sampled constants"""
    consts = [0, 1, (1 << 64) - 1, 1 << 63] + [1 << i for i in range(0, 64, 5)] + [rng.next() for _ in range(150)] + \
             [rng.next() & rng.next() & rng.next() for _ in range(50)] + [(rng.next() << rng.below(64)) & ((1 << 64) - 1) for _ in range(50)]
    src = os.path.join(ctx.tmp, 'sa.c')
    with open(src, 'w') as f:
        f.write('#include <stdint.h>\n#include <librfn/constexpr.h>\n')
        for i, c in enumerate(consts):
            f.write(f'_Static_assert(const_pop(0x{c:x}ull) == {ref("const_pop", c)}, "const_pop 0x{c:x}");\n')
            f.write(f'_Static_assert(const_lssb(0x{c:x}ull) == {ref("const_lssb", c)}, "const_lssb 0x{c:x}");\n')
            f.write(f'enum {{ e{i} = const_pop(0x{c:x}ull) + const_lssb(0x{c:x}ull) }};\n')
            # the value in the macro's own expression type: -1 must be negative, and halve to 0
            f.write(f'_Static_assert((const_lssb(0x{c:x}ull) < 0) == {1 if c == 0 else 0}, "const_lssb-sign 0x{c:x}");\n')
            f.write(f'_Static_assert(const_lssb(0x{c:x}ull) / 2 == {int(ref("const_lssb", c) / 2)}, "const_lssb-half 0x{c:x}");\n')
    rc, out, err = vlib.sh(['gcc', '-fsyntax-only', '-I' + os.path.join(vlib.REPO, 'include'), src], timeout=120)
    fails = [(o.split('-')[0], c) for o, c in re.findall(r'static assertion failed: "(\S+) (0x[0-9a-f]+)"', err)]
    if rc != 0 and not fails:
        ctx.broken.append('constexpr.h macros are no longer integer constant expressions: ' + err[-400:])
    return len(consts) * 2, fails


def run(ctx):
    rng = vlib.Rng(ctx.seed)
    pc.regen_units(ctx, ['BitopsSeq', 'ConstexprSeq'])
    proved = ctx.prove(['Librfn.Props.C16'], REQUIRED, allow_extra_axioms=lambda t, a: '_native.bv_decide.ax' in a and t.startswith('Librfn.C16.'))
    exe, fast = pc.build(ctx, 'PURE_BITS')
    calls = gen_inputs(rng, ctx.tier)
    c_out, lean_out = pc.differential(ctx, exe, [f'{op} {x}' for op, x in calls], 'pure-bits')
    tv_bad = 0
    for i, (op, x) in enumerate(calls):
        got = c_out[i] if i < len(c_out) else 'missing'
        want = str(ref(op, x))
        ctx.count((op, x))
        if got != want:
            ctx.violation({'obligation': 'implementation vs mathematical definition', 'call': f'{op}({x:#x})', 'expected': want,
                           'observed': got, 'how_to_rerun': f'echo "{op} {x}" | pure lines'}, key=f'{op}:{x}')
            break
        if lean_out is not None and (i >= len(lean_out) or lean_out[i] != got):
            tv_bad += 1
            if tv_bad == 1:
                ctx.broken.append(f'tie T translation validation: generated Lean {op}({x:#x}) = {lean_out[i] if i < len(lean_out) else None} but compiled C = {got}')
    ctx.cov['traces_validated_against_impl'] = len(calls) if lean_out is not None else 0
    for s in calls[:2] + calls[len(calls) // 2: len(calls) // 2 + 2]:
        ctx.sample({'call': f'{s[0]}({s[1]:#x})', 'result': ref(*s)})
    # call-order independence: each function as the FIRST bitops call of a fresh process (lazily initialised tables etc.)
    for first in ('ctz', 'clz', 'ilog2', 'bitcnt'):
        xs = [0x4000, 0x80000000, 1, 0x00ff0000, rng.next() & 0xffffffff or 1]
        rc, out, err = vlib.sh([exe, 'lines'], input=''.join(f'{first} {x}\n' for x in xs), timeout=60)
        got = out.split()
        for x, g in zip(xs, got + ['missing'] * len(xs)):
            ctx.count(('first-call', first, x))
            if g != str(ref(first, x)) and not ctx.violations:
                ctx.violation({'obligation': f'{first} as the first bit-helper call of a fresh process', 'call': f'{first}({x:#x})', 'expected': ref(first, x), 'observed': g,
                               'how_to_rerun': f'echo "{first} {x}" | pure lines   (fresh process)'}, key=f'first:{first}:{x}')
    # const_lssb in its own expression type: negative exactly for 0, and -1/2 == 0
    sx = [0, 1, 2, 1 << 31, 1 << 32, 1 << 63, (1 << 64) - 1] + [rng.next() for _ in range(20)]
    rc, out, err = vlib.sh([exe, 'lines'], input=''.join(f'const_lssb_sign {x}\n' for x in sx), timeout=60)
    for x, g in zip(sx, out.strip('\n').split('\n') + ['missing'] * len(sx)):
        want = f'{1 if x == 0 else 0} {int(ref("const_lssb", x) / 2)}'
        ctx.count(('sign', x))
        if g != want and not ctx.violations:
            ctx.violation({'obligation': 'const_lssb evaluated in its own expression type (sign test, halving)', 'call': f'const_lssb({x:#x})', 'expected': want + '  (is-negative, value/2)',
                           'observed': g}, key=f'sign:{x}')
    # regdump.c, the in-library user of ctz: the field value the real fregdump() prints for contiguous masks
    rd = []
    for n in list(range(1, 33)):
        for s_ in sorted({0, 1, 7, 8, 15, 16, 24, 31, 32 - n, rng.below(33 - n)}):
            if n + s_ <= 32:
                rd.append((rng.choice([0xffffffff, 0xc041, rng.next() & 0xffffffff, rng.next() & 0xffffffff]), n, s_))
    rc, out, err = vlib.sh([exe, 'lines'], input=''.join(f'regdump {reg} {(((1 << n) - 1) << s_) & 0xffffffff}\n' for reg, n, s_ in rd), timeout=60)
    for (reg, n, s_), g in zip(rd, out.strip('\n').split('\n') + ['missing'] * len(rd)):
        want = '%x' % ((reg >> s_) & ((1 << n) - 1))
        ctx.count(('regdump', reg, n, s_))
        if g != want and not ctx.violations:
            ctx.violation({'obligation': 'regdump field extraction (reg & mask) >> ctz(mask) on the real fregdump()', 'call': f'fregdump(reg={reg:#x}, mask={(((1 << n) - 1) << s_) & 0xffffffff:#x})',
                           'expected': want, 'observed': g}, key=f'regdump:{reg}:{n}:{s_}')
    nsa, sfails = static_asserts(ctx, rng)
    ctx.cov['static_asserts'] = nsa
    for op, c in sfails[:1]:
        ctx.violation({'obligation': 'compile-time constant value', 'call': f'{op}({c}) as integer constant expression',
                       'expected': ref(op, int(c, 16)), 'observed': 'different (static assertion failed)'}, key=f'static:{op}:{c}')
    # search / thorough: exhaustive 2^32 sweep and the structured 64-bit sweep against compiler builtins
    if ctx.tier == 'thorough' or ctx.broken:
        fails, n = pc.sweep(ctx, fast, 'bitops')
        ctx.cov['exhaustive_32bit_inputs'] = n
        ctx.cov['exhaustive'] = not fails and n == 1 << 32
        for f in fails[:1]:
            ctx.violation({'obligation': 'exhaustive sweep vs gcc builtins', 'failing_case': f, 'how_to_rerun': 'pure_fast sweep bitops'}, key='sweep:' + f.split(' got=')[0])
        rc, out, err = vlib.sh([fast, 'macros', str(ctx.seed), '2000000'], timeout=900)
        for l in out.split('\n'):
            if l.startswith('FAIL '):
                ctx.violation({'obligation': '64-bit macro sweep vs gcc builtins', 'failing_case': l[5:]}, key='sweep:' + l[5:].split(' got=')[0])
                break
            if l.startswith('OK '):
                ctx.cov['macro_patterns'] = int(l.split()[1])
    ctx.cov['rule'] = ('calls (function, argument): all one-/two-bit words, low/high masks, SWAR constants, seeded random and random-sparse/shifted '
                       'values; distinct = distinct (function, argument); every one is non-trivial (compared with an independent Python definition and, '
                       'for translation validation, with the generated Lean definition)')
    ctx.assumptions += [META['level_note']]


def replay(ctx, path):
    import json
    r = json.load(open(path))
    call = r.get('call') or r.get('failing_case', '')
    m = re.match(r'(\w+)[( ](0x[0-9a-f]+|\d+)', call)
    if not m:
        print('replay names a broken obligation, not an input:', r.get('obligation')); return 1
    op, x = m.group(1), int(m.group(2), 0)
    exe, _ = pc.build(ctx, 'PURE_BITS')
    rc, out, err = vlib.sh([exe, 'lines'], input=f'{op} {x}\n')
    print(f'{op}({x:#x}) = {out.strip()} expected {ref(op, x)}')
    return 0 if out.strip() == str(ref(op, x)) else 1

"""Second-generation tie T (tools/c2lean2.py): regenerate the unit(s) from the tree under check, build the property's
theorems together with the tie module, audit axioms.  `*_generated` theorems (generated code = bit-vector reference on all
inputs) may use bv_decide certificates; the `*_tie` theorems inherit exactly those."""
import os, re
import vlib


def prove(ctx, units, modules, required, tie_module, tie_ns, extra_allow=None, dependents=(), sig_only=None):
    """dependents: [(module, namespace)] — theorem files built on the tie (e.g. the property restated about the generated code);
    every theorem in them is required and inherits the tie's bv_decide certificates, nothing else"""
    import regen
    for u, e in regen.regen(units):
        ctx.broken.append(f'tie T: tools/c2lean2.py cannot translate unit {u}: {e}')

    def allow(t, a):
        if extra_allow and extra_allow(t, a):
            return True
        return ((t.startswith(tie_ns + '.') or any(t.startswith(ns + '.') for _, ns in dependents))
                and a.startswith(tie_ns + '.') and '._native.bv_decide.ax_' in a
                and '_generated' in a.split('._native.bv_decide.ax_')[0].split('.')[-1])
    # fast path: the tie theorems are stated against the interface (parameters, result fields) of the generated definitions; when the
    # regenerated interface differs (a member added to a structure, a parameter changed) they cannot even be stated, so do not spend
    # the build on them - the tie is broken and the search for a failing input starts at once
    changed = []
    for u in units:
        changed += [f'{u}: {c}' for c in regen.signature_changes(u, only=(sig_only or {}).get(u))]
    if changed:
        ctx.broken.append('tie T: the interface of the regenerated definitions differs from the one the tie theorems of ' + tie_module
                          + ' are stated against (' + '; '.join(changed)[:900] + ')')
        ok = ctx.prove(list(modules), list(required))
        ctx.cov['tie_T_generated_units'] = {u: regen.UNITS2[u][1] for u in units if u in regen.UNITS2}
        return False
    tie_file = tie_module.replace('.', '/') + '.lean'
    ties = [t for t in ctx.prop_theorems(tie_file) if t.endswith('_tie') or t.endswith('_generated')]
    deps = []
    for m, ns in dependents:
        deps += ctx.prop_theorems(m.replace('.', '/') + '.lean')
    ok = ctx.prove(list(modules) + [tie_module] + [m for m, _ in dependents], list(required) + ties + deps, allow_extra_axioms=allow)
    if dependents:
        ctx.cov['tie_T_dependent_theorems'] = deps
    ctx.cov['tie_T_generated_units'] = {u: regen.UNITS2[u][1] for u in units if u in regen.UNITS2}
    return ok


def sat_hints(ctx):
    """falsifying assignments bv_decide printed for broken `*_generated` obligations: [{var: int}]"""
    out = []
    for n in ctx.notes:
        if n.startswith('SAT counterexample'):
            d = {m.group(1): int(m.group(2)) for m in re.finditer(r'(\w+) = (\d+)#\d+', n)}
            if d:
                out.append(d)
    return out

"""C09 — the intrusive linked list behaves as a sequence under every order of operations
(tie D; kernel-only refinement proof of a heap model of list.c, incl. the stale/bogus tail)."""
import glob, os, sys
import vlib
sys.path.insert(0, os.path.dirname(os.path.abspath(__file__)))

META = {
    'engine': 'lean-D',
    'technique': 'Lean 4 refinement proof: explicit-heap model of list.c (next/head/tail cells, the tail left stale or set to the bogus '
                 '"address of the head field" exactly where the C does) refines abstract sequences, one lemma per C function, lifted to all '
                 'histories over any number of lists/iterators by induction; model tied to the C by translation for all ten functions '
                 '(tools/c2lean2.py regenerates list.c with its structures in byte memory on every run; Props/C09Tie.lean proves list_insert, list_push, list_extract, '
                 'list_iterate, list_iterator_next/insert/remove, and - by induction over the recursive loop definition, for every list length - list_contains, list_remove and list_insert_sorted (pure comparator) equal to the heap model on every memory that represents a heap) and by differential runs for everything',
    'level_text': 'Proved (Lean, all histories): for every sequence of calls of any length, over any number of lists and iterators and a node pool of any size N, '
                  'of list_insert, list_push, list_insert_sorted, list_extract, list_peek, list_empty, list_iterate, list_iterator_next/insert/remove, list_contains '
                  '(with and without iterator) and list_remove in which a node is never inserted while it is a member of a list (iterators used while the node they hang '
                  'off is still a member; list_iterator_remove only with a current node; sorted insertion only into a list sorted by a total-preorder comparator), '
                  'the statement-by-statement heap model of list.c returns exactly what abstract sequences return (extracted node, found/not found, node after a removal, '
                  'iterator position), every traversal spells the abstract sequence, lists other than the one operated on are untouched, every removed/extracted node has '
                  'next = NULL and can be inserted anywhere at once, the tail is dereferenced only while it is the genuine last node (stale and bogus tails of empty lists are '
                  'tolerated by the invariant and never followed), N+1 loop iterations always suffice, and list_insert_sorted keeps a sorted list sorted with the new node after '
                  'all its equals. Sampled (not proved): that the model is list.c.',
    'level_note': 'Trusted: Lean kernel (standard axioms only in the C09 theorems; bv_decide certificate axioms in the *_generated lemmas of Props/C09Tie.lean, in Gen/MemWord.lean (a 64-bit load after a 64-bit store) and sep_comm/sep_self8); tools/c2lean2.py + clang AST (tie T2 for all ten functions: pointers are 64-bit values, list_t/list_node_t/list_iterator_t live in the byte memory with the x86-64 layout, NDEBUG build so the asserts are not translated; the layer-2 theorems assume objects 8-byte aligned in one window of 2^40 words that excludes address 0, different objects at different cells, the iterator object apart from the heap cells); the loops of list_contains/list_remove/list_insert_sorted are recursive definitions with a fuel argument and their ties are by induction (any length); the comparator is assumed to be a pure function whose sign agrees with that of the model comparator; the hand model of list.c is validated on every run against the real list.c built with ASan '
                  '(corpus of past failures; structured random histories to length 200 over 8 nodes x 3 lists x 4 iterators biased to removal of the last/only node then any insertion, '
                  'iterators past the end, equal keys; every call from every reachable state of a 3-node x 2-list x 1-iterator scope to the fixed point; thorough tier adds all histories '
                  'of length <= 4 of that scope and two larger state spaces) - that tie is sampling, not proof. Lists beyond the 8-node pool (255..70000 members, around every width a hidden member counter could have) are run on the real code only, against the Python sequence oracle, not through the Lean model. The Python oracle used for gating is checked against the Lean spec on every run. '
                  'Distinct C objects are distinct ids; the comparator is a pure total function of the two nodes; a dereference of a non-node pointer is an error result of the model '
                  '(proved unreachable in scope), not given a meaning.',
    'design_ref': '§6 C09',
}
REQUIRED = ['Librfn.C09.' + t for t in (
    'list_history_refines', 'list_history_refines_init', 'step_refines', 'rel_init', 'rel_observations', 'isList_frame',
    'insert_refines', 'push_refines', 'extract_refines', 'peek_refines', 'empty_refines', 'iterate_refines', 'iteratorNext_refines',
    'iteratorInsert_refines', 'iteratorRemove_refines', 'iteratorRemove_at_end', 'contains_refines', 'remove_refines',
    'insertSorted_refines', 'insert_sorted_stable', 'traverse_refines', 'keyCmp_totalPreorder', 'tail_is_last_when_nonempty')]

NN, NL, NK = 8, 3, 4
HEAD = 'H'


# ------------------------------------------------------------------ independent oracle (from the property text)
class Abs:
    """every list is a Python list of node ids; an iterator is (list, predecessor) with predecessor HEAD or a member node"""
    def __init__(s):
        s.L = [[] for _ in range(NL)]
        s.it = [None] * NK
        s.key = [i // 2 for i in range(NN)]

    def clone(s):
        c = Abs.__new__(Abs)
        c.L = [list(x) for x in s.L]; c.it = list(s.it); c.key = list(s.key)
        return c

    def free(s, n):
        return all(n not in x for x in s.L)

    def free_nodes(s):
        return [i for i in range(NN) if s.free(i)]

    def pos(s, k):
        l, p = s.it[k]
        return 0 if p == HEAD else s.L[l].index(p) + 1

    def is_sorted(s, l):
        x = s.L[l]
        return all(s.key[x[i]] <= s.key[x[i + 1]] for i in range(len(x) - 1))

    def reval(s):
        for k in range(NK):
            if s.it[k] is not None:
                l, p = s.it[k]
                if p != HEAD and p not in s.L[l]:
                    s.it[k] = None

    def dump(s):
        return ''.join(' L%d:%s' % (l, ''.join('%d,' % x for x in s.L[l])) for l in range(NL)) + \
               ' free:' + ''.join('%d,' % i for i in s.free_nodes())

    def apply(s, line):
        """-> return value as printed, or None when the call is outside the property's scope"""
        w = line.split()
        op, a = w[0], [int(x) for x in w[1:]]
        nid = lambda o: str(o) if o is not None else '-1'
        at = lambda xs, i: xs[i] if 0 <= i < len(xs) else None
        r = None
        if op == 'setkey':
            s.key[a[0]] = a[1]; r = 'ok'
        elif op in ('insert', 'push', 'sorted'):
            l, n = a
            if not s.free(n):
                return None
            if op == 'insert':
                s.L[l].append(n)
            elif op == 'push':
                s.L[l].insert(0, n)
            else:
                if not s.is_sorted(l):
                    return None
                i = 0
                while i < len(s.L[l]) and s.key[s.L[l][i]] <= s.key[n]:
                    i += 1                       # after every node that is smaller or EQUAL
                s.L[l].insert(i, n)
            r = 'ok'
        elif op == 'extract':
            r = nid(s.L[a[0]].pop(0) if s.L[a[0]] else None)
        elif op == 'peek':
            r = nid(at(s.L[a[0]], 0))
        elif op == 'empty':
            r = '0' if s.L[a[0]] else '1'
        elif op == 'iterate':
            k, l = a
            s.it[k] = (l, HEAD); r = nid(at(s.L[l], 0))
        elif op in ('next', 'cur', 'iinsert', 'iremove'):
            k = a[0]
            if s.it[k] is None:
                return None
            l = s.it[k][0]; p = s.pos(k); xs = s.L[l]
            if op == 'cur':
                r = nid(at(xs, p))
            elif op == 'next':
                if p < len(xs):
                    s.it[k] = (l, xs[p]); p += 1
                r = nid(at(xs, p))
            elif op == 'iinsert':
                if not s.free(a[1]):
                    return None
                xs.insert(p, a[1]); r = 'ok'
            else:
                if p >= len(xs):
                    return None                  # list_iterator_remove asserts a current node
                xs.pop(p); r = nid(at(xs, p))
        elif op == 'contains':
            r = '1' if a[1] in s.L[a[0]] else '0'
        elif op == 'find':
            k, l, n = a
            xs = s.L[l]
            if n in xs:
                i = xs.index(n); s.it[k] = (l, HEAD if i == 0 else xs[i - 1]); r = '1'
            else:
                s.it[k] = (l, xs[-1] if xs else HEAD); r = '0'
        elif op == 'remove':
            l, n = a
            if n in s.L[l]:
                s.L[l].remove(n); r = '1'
            else:
                r = '0'
        else:
            return None
        s.reval()
        return r


def spec(h):
    s, out = Abs(), []
    for line in h:
        r = s.apply(line)
        out.append((r if r is not None else '?out-of-scope') + s.dump())
    return out


def valid(h):
    s = Abs()
    return all(s.apply(line) is not None for line in h)


# ------------------------------------------------------------------ generator
def gen_history(rng, maxlen, nn=NN, nl=NL, nk=NK, theme=None):
    """structured, always in scope; biased to: removal of the last / only element followed by an insertion of any kind,
    iterators anywhere incl. past the end (several on one list), sorted insertion with equal keys"""
    s, h = Abs(), []
    theme = rng.below(5) if theme is None else theme
    nn = rng.range(3, nn) if rng.chance(1, 2) else nn
    nl = rng.range(1, nl)
    nk = rng.range(1, nk)

    def emit(line):
        if len(h) >= maxlen:
            return False
        t = s.clone()
        if t.apply(line) is None:
            return False
        s.apply(line); h.append(line)
        return True

    def free():
        f = [i for i in s.free_nodes() if i < nn]
        return rng.choice(f) if f else None

    def its_on(l):
        return [k for k in range(nk) if s.it[k] is not None and s.it[k][0] == l]

    def any_insert(l):
        n = free()
        if n is None:
            return
        ks = its_on(l)
        c = rng.below(8)
        if c < 2:
            emit(f'insert {l} {n}')
        elif c < 4:
            emit(f'push {l} {n}')
        elif c < 6 and s.is_sorted(l):
            emit(f'sorted {l} {n}')
        elif ks:
            emit(f'iinsert {rng.choice(ks)} {n}')
        else:
            emit(f'insert {l} {n}')

    def remove_at(l, i):
        """remove element i of list l by one of the ways the API offers"""
        xs = s.L[l]
        n = xs[i]
        c = rng.below(4)
        k = rng.below(nk)
        if c == 0:
            emit(f'remove {l} {n}')
        elif c == 1:
            emit(f'find {k} {l} {n}'); emit(f'iremove {k}')
        elif c == 2:
            emit(f'iterate {k} {l}')
            for _ in range(i):
                emit(f'next {k}')
            emit(f'iremove {k}')
        elif i == 0:
            emit(f'extract {l}')
        else:
            emit(f'remove {l} {n}')

    def observe(l):
        c = rng.below(5)
        if c == 0:
            emit(f'contains {l} {rng.below(nn)}')
        elif c == 1:
            emit(f'peek {l}')
        elif c == 2:
            emit(f'empty {l}')
        else:
            ks = [k for k in range(nk) if s.it[k] is not None]
            if ks:
                emit(f'cur {rng.choice(ks)}')

    def walk(l):
        k = rng.below(nk)
        emit(f'iterate {k} {l}')
        for _ in range(rng.range(0, len(s.L[l]) + 2)):      # up to and past the end
            emit(f'next {k}')

    def iter_op():
        ks = [k for k in range(nk) if s.it[k] is not None]
        if not ks:
            return walk(rng.below(nl))
        k = rng.choice(ks)
        c = rng.below(6)
        if c < 2:
            emit(f'next {k}')
        elif c < 4:
            n = free()
            if n is not None:
                emit(f'iinsert {k} {n}')
        elif c == 4:
            emit(f'iremove {k}')
        else:
            emit(f'cur {k}')

    # weights per theme: (drain/refill, iterators, sorted, misc)
    W = [(6, 2, 1, 2), (2, 7, 1, 2), (2, 2, 7, 1), (3, 3, 3, 3), (5, 5, 0, 1)][theme]
    # key scale: a comparator returns the key difference, so differences beyond the 8-, 16- and 31-bit ranges must occur
    # (a comparison result narrowed to a smaller type only goes wrong there); negative keys too
    K = rng.choice([1, 1, 1, 1, 60, 130, 40000, 70000, 500000000])
    if theme == 2 or rng.chance(1, 3) or K > 1:
        for n in range(nn):                                  # few distinct keys: many equal ones
            if rng.chance(2, 3) or K > 1:
                emit(f'setkey {n} {(rng.below(3) - (1 if K > 1 else 0)) * K}')
    guard = 0
    while len(h) < maxlen and guard < 4 * maxlen:
        guard += 1
        l = rng.below(nl)
        t = rng.below(sum(W))
        if t < W[0]:
            xs = s.L[l]
            c = rng.below(6)
            if not xs or (c == 0 and len(xs) < 3):
                any_insert(l)
            elif c <= 3:
                remove_at(l, len(xs) - 1)                    # the last (or only) element ...
                if rng.chance(4, 5):
                    any_insert(l)                            # ... then an insertion of any kind
            elif c == 4:
                remove_at(l, rng.below(len(xs)))
            else:
                while s.L[l] and rng.chance(3, 4):           # drain
                    remove_at(l, rng.choice([0, len(s.L[l]) - 1]))
                any_insert(l); any_insert(l)
        elif t < W[0] + W[1]:
            c = rng.below(5)
            if c == 0:
                walk(l)
            elif c == 1:
                emit(f'find {rng.below(nk)} {l} {rng.below(nn)}')
            else:
                iter_op()
        elif t < W[0] + W[1] + W[2]:
            n = free()
            c = rng.below(6)
            if n is not None and s.is_sorted(l) and c < 4:
                if rng.chance(1, 3):
                    emit(f'setkey {n} {(rng.below(3) - (1 if K > 1 else 0)) * K}')
                emit(f'sorted {l} {n}')
            elif c == 4 and s.L[l]:
                remove_at(l, rng.below(len(s.L[l])))
            elif s.L[l]:
                emit(f'extract {l}')
        else:
            c = rng.below(4)
            if c == 0:
                any_insert(l)
            elif c == 1:
                emit(f'extract {l}')                         # also on an empty list (returns NULL)
            elif c == 2:
                emit(f'remove {l} {rng.below(nn)}')
            else:
                observe(l)
    return h


def gen_lengths(rng, count):
    out = []
    for i in range(count):
        c = rng.below(10)
        out.append(rng.range(3, 12) if c < 3 else rng.range(12, 60) if c < 7 else rng.range(60, 200) if c < 9 else 200)
    return out


# ------------------------------------------------------------------ exhaustive small scope
def all_ops(nn, nl, nk):
    ops = []
    for l in range(nl):
        for n in range(nn):
            ops += [f'insert {l} {n}', f'push {l} {n}', f'sorted {l} {n}', f'remove {l} {n}']
        ops += [f'extract {l}']
        for k in range(nk):
            ops += [f'iterate {k} {l}']
            for n in range(nn):
                ops += [f'find {k} {l} {n}']
    for k in range(nk):
        ops += [f'next {k}', f'iremove {k}']
        for n in range(nn):
            ops += [f'iinsert {k} {n}']
    return ops


def exhaustive(depth, nn, nl, nk, prefix=()):
    """every in-scope history of exactly `depth` ops (each op's output is compared, so all shorter ones are covered as prefixes);
    state-preserving calls (a miss of remove/extract/find on an unchanged state) are kept — they are part of the space"""
    ops = all_ops(nn, nl, nk)
    out = []
    def rec(s, h):
        if len(h) == depth:
            out.append(list(h)); return
        for o in ops:
            t = s.clone()
            if t.apply(o) is None:
                continue
            h.append(o); rec(t, h); h.pop()
    s = Abs()
    for o in prefix:
        s.apply(o)
    rec(s, list(prefix))
    return out


def model_states(ctx, hs):
    """concrete state of the Lean heap model (heads, raw tails incl. stale ones, links, iterators) after each history"""
    text = ''.join('reset\n' + '\n'.join(h) + '\nstate\n--\n' for h in hs)
    out = ctx.run_model(['list'], text, timeout=900).split('\n')
    if out and out[-1] == '':
        out.pop()
    return [g[-1] for g in vlib.split_histories(out)]


def state_key(h, mstate):
    """identity of a reached state: abstract sequences + iterators, and the model's concrete cells (the stale tails are the point);
    the two fields of an iterator that is abstractly dead are overwritten before any in-scope use, so they are masked"""
    s = Abs()
    for o in h:
        s.apply(o)
    toks = [t for t in mstate.split() if not (t[0] == 'i' and s.it[int(t[1:t.index('=')])] is None)]
    return (tuple(map(tuple, s.L)), tuple(s.it), ' '.join(toks))


def bfs_states(ctx, exe, depth, nn, nl, nk):
    """every in-scope call from every distinct reachable state (abstract + concrete model cells), level by level to `depth`
    or to the fixed point; each candidate history is run on the real code and compared"""
    ops = all_ops(nn, nl, nk)
    seen = {state_key([], model_states(ctx, [[]])[0])}
    frontier, total, levels, agreed = [[]], 0, [], 0
    for d in range(1, depth + 1):
        cands = []
        for h in frontier:
            s = Abs()
            for o in h:
                s.apply(o)
            for o in ops:
                if s.clone().apply(o) is not None:
                    cands.append(h + [o])
        if not cands:
            break
        for i in range(0, len(cands), 20000):
            agreed += vlib.correspond(ctx, 'list', [exe], cands[i:i + 20000], spec=spec, valid=valid, timeout=600)
            if ctx.violations or ctx.broken:
                return agreed, levels, False
        total += len(cands)
        for h in cands:
            ctx.count(tuple(h))
        frontier = []
        for h, ms in zip(cands, model_states(ctx, cands)):
            k = state_key(h, ms)
            if k not in seen:
                seen.add(k); frontier.append(h)
        levels.append({'depth': d, 'calls_checked': len(cands), 'new_states': len(frontier)})
        if not frontier:
            return agreed, levels, True
    return agreed, levels, False


# ------------------------------------------------------------------ check
def harness(ctx):
    R = vlib.REPO
    exe, log = ctx.cc('h_list', [os.path.join(vlib.VERIF, 'harness/h_list.c'), R + '/librfn/list.c'])
    if not exe:
        raise vlib.Unbuildable('list harness does not compile against the repo: ' + log[-1500:])
    return exe


def corpus():
    hs = []
    if os.environ.get('C09_NO_CORPUS'):      # mutation testing of the generator alone
        return hs
    for p in sorted(glob.glob(os.path.join(vlib.VERIF, 'corpus', 'C09', '*.txt'))):
        h = [l.strip() for l in open(p) if l.strip() and not l.startswith('#')]
        if h and valid(h):
            hs.append(h)
    return hs


def lean_spec_agrees(ctx, hs):
    """the abstract spec the theorems are about (Lean, Spec/ListSeq.lean) and the Python oracle used for gating are the same function"""
    text = ''.join('reset\n' + '\n'.join(h) + '\n--\n' for h in hs)
    out = ctx.run_model(['list', 'spec'], text, timeout=300).split('\n')
    if out and out[-1] == '':
        out.pop()
    got = vlib.split_histories(out)
    for i, h in enumerate(hs):
        g = got[i][1:] if i < len(got) else None
        if g != spec(h):
            k = vlib.diff_streams(g or [], spec(h))
            ctx.broken.append(f'Lean spec (Spec/ListSeq.lean) differs from the Python oracle on history {h[:(k or 0) + 1]}: lean={g[k] if g and k is not None and k < len(g) else None}')
            return False
    return True


def out_of_scope_stream(ctx, exe, rng, count):
    """list_insert_sorted into lists that are NOT sorted: outside the property (nothing is claimed, nothing gates);
    the model is still defined there (`sortedIns`), so a divergence is recorded as a note about the tie only"""
    hs = []
    for _ in range(count):
        h = [f'setkey {n} {rng.below(4)}' for n in range(NN)]
        nodes = rng.shuffle(list(range(NN)))
        k = rng.range(2, 5)
        h += [f"{rng.choice(['insert', 'push'])} 0 {n}" for n in nodes[:k]]
        h += [f'sorted 0 {n}' for n in nodes[k:]]
        hs.append(h)
    text = ''.join('reset\n' + '\n'.join(h) + '\n--\n' for h in hs)
    impl = vlib.split_histories(vlib.run_exe([exe], text, 120))
    mo = ctx.run_model(['list'], text, timeout=120).split('\n')
    if mo and mo[-1] == '':
        mo.pop()
    model = vlib.split_histories(mo)
    diffs = sum(1 for i in range(len(hs)) if i >= len(impl) or i >= len(model) or impl[i] != model[i])
    ctx.cov['out_of_scope_stream'] = {'what': 'list_insert_sorted into unsorted lists (outside the scope; never gates)',
                                      'histories': len(hs), 'impl_differs_from_model': diffs}
    if diffs:
        ctx.notes.append(f'out-of-scope stream: model and implementation differ on {diffs}/{len(hs)} histories with sorted insertion into unsorted lists (not a finding)')


def line_coverage(ctx, hs):
    """thorough tier: which lines of list.c did the generated histories execute (gcov of an uninstrumented-by-ASan build)"""
    import re, subprocess
    d = os.path.join(ctx.tmp, 'cov')
    os.makedirs(d, exist_ok=True)
    exe = os.path.join(d, 'hcov')
    cmd = ['gcc', '-g', '-O0', '--coverage', '-I' + os.path.join(vlib.REPO, 'include'), '-o', exe,
           os.path.join(vlib.VERIF, 'harness/h_list.c'), os.path.join(vlib.REPO, 'librfn/list.c')]
    if subprocess.run(cmd, cwd=d, capture_output=True).returncode != 0:
        return None
    text = ''.join('reset\n' + '\n'.join(h) + '\n--\n' for h in hs)
    subprocess.run([exe], input=text, cwd=d, capture_output=True, text=True, timeout=300)
    p = subprocess.run(['gcov', '-o', d, 'hcov-list.gcda'], cwd=d, capture_output=True, text=True)
    try:
        rep = open(os.path.join(d, 'list.c.gcov')).read()
    except OSError:
        return {'error': (p.stdout + p.stderr)[-300:]}
    missed = [ln.split(':', 2)[1].strip() + ':' + ln.split(':', 2)[2].strip() for ln in rep.split('\n') if ln.lstrip().startswith('#####')]
    ran = sum(1 for ln in rep.split('\n') if re.match(r'\s*\d+\*?:', ln))
    return {'file': 'librfn/list.c', 'lines_executed': ran, 'lines_not_executed': missed}


# ------------------------------------------------------------------ large lists (C side only, Python oracle; not run through the Lean model)
BIG_POOL = 70016
BIG_SIZES = [255, 256, 257, 65535, 65536, 65537, 70000]      # around every width a hidden member counter could have
M64 = (1 << 64) - 1


# regression scenarios, run first: a 16-bit member counter substituted for the head test wraps at 65536 members
BIG_CORPUS = [
    ['reset asc', 'growto ips 70000', 'extract all'],
    ['reset eq', 'growto i 65535', 'obs', 'growto p 65536', 'obs', 'growto s 65537', 'obs', 'iremove last', 'iremove first', 'obs', 'extract all', 'obs'],
]


def big_hash(ids):
    h = 0
    for x in ids:
        h = (h * 31 + x + 1) & M64
    return h


def big_concretize(lines):
    """symbolic scenario -> (lines for harness/h_list_big.c, expected outputs), or None when a line is outside the scope.
    The oracle is the abstract sequence: one Python list of node ids (nodes are handed out in ascending id order)."""
    from collections import deque
    xs, nxt, asc, out, exp = deque(), 0, True, [], []
    def where(w, upto_len):
        n = len(xs)
        if w == 'first':
            return 0
        if w == 'last':
            return n - 1
        if w == 'mid':
            return n // 2
        if w == 'end' and upto_len:
            return n
        return None
    for line in lines:
        w = line.split()
        op = w[0]
        if op == 'reset' and len(w) == 2 and w[1] in ('asc', 'eq'):
            xs, nxt, asc = deque(), 0, w[1] == 'asc'
            out.append(line); exp.append('ok')
        elif op == 'growto' and len(w) == 3:
            pat, target = w[1], int(w[2])
            cnt = target - len(xs)
            if cnt < 0 or nxt + cnt > BIG_POOL or not pat or set(pat) - set('ips'):
                return None
            for k in range(cnt):
                if pat[k % len(pat)] == 'p':
                    xs.appendleft(nxt)          # push: new head (asc: its key is below every key in the list)
                else:
                    xs.append(nxt)              # insert: new tail; sorted insert: after all smaller AND equal keys = new tail
                nxt += 1
            out.append(f'grow {pat} {cnt}'); exp.append('ok')
        elif op == 'obs':
            out.append('obs')
            exp.append(f'empty={0 if xs else 1} peek={xs[0] if xs else -1} n={len(xs)} hash={big_hash(xs)} dirty=0')
        elif op == 'contains' and len(w) == 2:
            if w[1] == 'free':
                if nxt >= BIG_POOL:
                    return None
                n, r = nxt, 0
            else:
                i = where(w[1], False)
                if i is None or not xs:
                    return None
                n, r = xs[i], 1
            out.append(f'contains {n}'); exp.append(str(r))
        elif op == 'extract' and len(w) == 2:
            cnt = len(xs) + 1 if w[1] == 'all' else int(w[1])
            got = [xs.popleft() if xs else -1 for _ in range(cnt)]
            out.append(f'extract {cnt}')
            exp.append(f'n={sum(1 for g in got if g >= 0)} hash={big_hash(got)}')
        elif op == 'iremove' and len(w) == 2:
            i = where(w[1], False)
            if i is None or not xs:
                return None
            del xs[i]
            out.append(f'iremove {i}'); exp.append(str(xs[i] if i < len(xs) else -1))
        elif op == 'iinsert' and len(w) == 2:
            i = where(w[1], True)
            if i is None or nxt >= BIG_POOL or (asc and i != len(xs)):
                return None                     # asc keys: only at the end, so that the list stays sorted
            xs.insert(i, nxt); nxt += 1
            out.append(f'iinsert {i}'); exp.append('ok')
        elif op == 'remove' and len(w) == 2:
            i = where(w[1], False)
            if i is None or not xs:
                return None
            n = xs[i]; del xs[i]
            out.append(f'remove {n}'); exp.append('1')
        else:
            return None
    return out, exp


def big_scenario(rng, sizes=BIG_SIZES):
    """build one list to each size in turn by a repeating mix of insert / push / sorted insert, observing it at every size
    (empty, peek, full traversal, contains first/last/free), removing and re-adding around the size through iterators,
    then extract everything"""
    mode = rng.choice(['asc', 'eq'])
    pat = rng.choice(['i', 's', 'p', 'is', 'ips', 'sp', 'ssi', 'pis', ''.join(rng.choice('ips') for _ in range(rng.range(2, 6)))])
    h = [f'reset {mode}']
    for size in sizes:
        h.append(f'growto {pat} {size}')
        h += ['obs', 'contains first', 'contains last', 'contains free']
        c = rng.below(5)
        if c == 0:
            h += [f'iremove {rng.choice(["first", "mid", "last"])}', 'obs', f'growto {pat} {size}', 'obs']
        elif c == 1:
            h += [f'remove {rng.choice(["first", "mid", "last"])}', 'iinsert end', 'obs']
        elif c == 2:
            h += ['extract 1', 'obs', f'growto {pat} {size}', 'obs']
        elif c == 3:
            h += ['iremove last', 'iinsert end', 'contains last', 'obs']
    h += ['extract all', 'obs', f'growto {pat} 3', 'obs', 'extract all']
    return h


def big_harness(ctx):
    R = vlib.REPO
    exe, log = ctx.cc('h_list_big', [os.path.join(vlib.VERIF, 'harness/h_list_big.c'), R + '/librfn/list.c'])
    if not exe:
        raise vlib.Unbuildable('large-list harness does not compile against the repo: ' + log[-1500:])
    return exe


def big_run(exe, scenarios):
    """-> per scenario (expected, observed)"""
    conc = [big_concretize(s) for s in scenarios]
    text = ''.join('\n'.join(c[0]) + '\n--\n' for c in conc)
    got = vlib.split_histories(vlib.run_exe([exe], text, 300))
    return [(c[1], got[i] if i < len(got) else ['!! missing (harness died earlier)']) for i, c in enumerate(conc)]


def big_lists(ctx, rng, count):
    """large-list family: implementation vs the abstract sequence; a mismatch is a violation whose replay is the compact scenario"""
    import time
    t0 = time.time()
    exe = big_harness(ctx)
    scenarios = [list(sc) for sc in BIG_CORPUS] + [big_scenario(rng) for _ in range(count)]
    res = big_run(exe, scenarios)
    ok = 0
    for sc, (exp, got) in zip(scenarios, res):
        ctx.count(('big',) + tuple(sc))
        if got == exp:
            ok += 1
            continue
        if got and got[0].startswith('!! missing'):
            exp, got = big_run(exe, [sc])[0]
            if got == exp:
                ok += 1
                continue
        def fails(cand):
            if not cand or not cand[0].startswith('reset') or big_concretize(cand) is None:
                return False
            e, g = big_run(exe, [cand])[0]
            return e != g
        small = vlib.ddmin(sc, fails, max_tests=60)
        exp, got = big_run(exe, [small])[0]
        k = vlib.diff_streams(got, exp)
        conc = big_concretize(small)[0]
        ctx.violation({'obligation': 'large lists: implementation vs abstract sequence (C side only, Python oracle)', 'family': 'big-list',
                       'ops': small, 'concrete_ops': conc, 'first_difference_at_output': k,
                       'failing_op': conc[k] if k is not None and k < len(conc) else None,
                       'expected': exp[max(0, (k or 0) - 1):(k or 0) + 2], 'observed': got[max(0, (k or 0) - 1):(k or 0) + 2],
                       'how_to_rerun': f'./check {ctx.pid} --replay <this file>'},
                      key='big:' + ' / '.join(small))
        break
    ctx.cov['large_lists'] = {'what': 'one list built to 255/256/257/65535/65536/65537/70000 members by a repeating mix of insert, push and sorted insert '
                                      '(ascending or all-equal keys), observed at every size (empty, peek, full traversal with order hash, contains of first/last/free node, '
                                      'dirty free nodes), removal/insertion through iterators and extract/remove at those sizes, then extract-all with order check; '
                                      'real list.c vs the abstract sequence (Python); not run through the Lean model',
                              'scenarios': len(scenarios), 'agreed': ok, 'wall_s': round(time.time() - t0, 2)}
    ctx.sample({'large_list_scenario': scenarios[0][:14], 'lines': len(scenarios[0])})
    return ok


def big_replay(ctx, r):
    exe = big_harness(ctx)
    sc = r['ops']
    if big_concretize(sc) is None:
        print('replay scenario is outside the scope'); return 2
    exp, got = big_run(exe, [sc])[0]
    k = vlib.diff_streams(got, exp)
    print('scenario      :', sc)
    print('implementation:', got[:40]); print('expected      :', exp[:40])
    print('SAME' if k is None else f'DIFFER at output {k}')
    return 0 if k is None else 1


def histogram(hs):
    d = {}
    for h in hs:
        for l in h:
            k = l.split()[0]
            d[k] = d.get(k, 0) + 1
    return dict(sorted(d.items()))


def shape_counts(hs):
    """how often the shapes the property names were exercised"""
    c = {'insert_kind_into_list_emptied_by_removal': 0, 'removal_of_last_element_then_tail_insert': 0, 'iterator_past_the_end_ops': 0,
         'sorted_insert_with_equal_key_present': 0, 'two_iterators_on_one_list': 0, 'reuse_of_removed_node': 0}
    for h in hs:
        s = Abs(); emptied = [False] * NL; lastrm = [False] * NL; removed = set()
        for line in h:
            w = line.split(); op = w[0]; a = [int(x) for x in w[1:]]
            before = [list(x) for x in s.L]
            if op in ('next', 'cur', 'iinsert') and s.it[a[0]] is not None and s.pos(a[0]) >= len(s.L[s.it[a[0]][0]]) and s.L[s.it[a[0]][0]]:
                c['iterator_past_the_end_ops'] += 1
            if op == 'sorted' and any(s.key[x] == s.key[a[1]] for x in s.L[a[0]]):
                c['sorted_insert_with_equal_key_present'] += 1
            if op in ('insert', 'push', 'sorted', 'iinsert'):
                l = a[0] if op != 'iinsert' else (s.it[a[0]][0] if s.it[a[0]] else 0)
                if emptied[l] and not s.L[l]:
                    c['insert_kind_into_list_emptied_by_removal'] += 1
                if lastrm[l] and s.L[l] and op in ('insert', 'sorted', 'iinsert'):
                    c['removal_of_last_element_then_tail_insert'] += 1
                if a[-1] in removed:
                    c['reuse_of_removed_node'] += 1
            s.apply(line)
            for l in range(NL):
                if len(s.L[l]) < len(before[l]):
                    gone = [x for x in before[l] if x not in s.L[l]]
                    removed.update(gone)
                    emptied[l] = not s.L[l]
                    lastrm[l] = bool(s.L[l]) and gone[0] == before[l][-1]
                elif len(s.L[l]) > len(before[l]):
                    emptied[l] = False; lastrm[l] = False
            live = [s.it[k][0] for k in range(NK) if s.it[k] is not None]
            if len(live) != len(set(live)):
                c['two_iterators_on_one_list'] += 1
    return c


def run(ctx):
    rng = vlib.Rng(ctx.seed)
    import tie_common

    def mem_allow(t, a):      # the word-granular memory lemmas and the two facts about `sep` are bit-vector certificates too
        return (t.startswith('Librfn.C09.Tie.') and '._native.bv_decide.ax_' in a
                and a.split('._native.bv_decide.ax_')[0] in ('Librfn.Gen.Mem.load64_store64_sep', 'Librfn.C09.Tie.sep_comm', 'Librfn.C09.Tie.sep_self8'))
    def allow2(t, a):          # the comparator instance (C09TieSched) rests on the C02 lemma about the regenerated duetime_cmp
        return mem_allow(t, a) or (t.startswith('Librfn.C09.TieSched.') and '._native.bv_decide.ax_' in a
                                   and (a.startswith('Librfn.C02.Tie.duetime_cmp_generated') or a.startswith('Librfn.C09.Tie.') or a.startswith('Librfn.Gen.Mem.')))
    tie_common.prove(ctx, ['ListSeq', 'FibreSeq'], ['Librfn.Props.C09'], REQUIRED, 'Librfn.Props.C09Tie', 'Librfn.C09.Tie', extra_allow=allow2,
                     dependents=[('Librfn.Props.C09TieSched', 'Librfn.C09.TieSched')], sig_only={'FibreSeq': ['duetime_cmp']})
    exe = harness(ctx)
    quick = ctx.tier == 'quick'
    hs = corpus()
    ncorpus = len(hs)
    # small dense scopes first (3 nodes, 1-2 lists: the same few cells are hit again and again), then the full pool
    for n in gen_lengths(rng, 150 if quick else 3000):
        hs.append(gen_history(rng, min(n, 40), nn=3, nl=2, nk=2))
    for n in gen_lengths(rng, 250 if quick else 6000):
        hs.append(gen_history(rng, n))
    exh = []
    if not quick:
        exh = exhaustive(4, 3, 2, 1)
        ctx.cov['exhaustive_histories'] = {'scope': 'every in-scope history of length <= 4 over 3 nodes x 2 lists x 1 iterator (insert, push, sorted, remove, extract, iterate, find, next, iinsert, iremove)',
                                 'histories': len(exh)}
    agreed = vlib.correspond(ctx, 'list', [exe], hs, spec=spec, valid=valid, timeout=120)
    if exh and not ctx.violations and not ctx.broken:
        step = 20000
        for i in range(0, len(exh), step):
            agreed += vlib.correspond(ctx, 'list', [exe], exh[i:i + step], spec=spec, valid=valid, timeout=600)
            if ctx.violations or ctx.broken:
                break
    # every call from every reachable state of a small scope, to the fixed point (also in the quick tier: 5 s)
    spaces = []
    for scope in ([(3, 2, 1)] if quick else [(3, 2, 1), (3, 2, 2), (4, 2, 1)]):
        if ctx.violations or ctx.broken:
            break
        a, levels, fix = bfs_states(ctx, exe, 16, *scope)
        agreed += a
        spaces.append({'nodes_lists_iterators': list(scope), 'levels': levels, 'fixed_point_reached': fix,
                       'distinct_states': 1 + sum(l['new_states'] for l in levels), 'calls_checked': sum(l['calls_checked'] for l in levels)})
    ctx.cov['exhaustive'] = bool(spaces) and all(sp['fixed_point_reached'] for sp in spaces) and not ctx.violations and not ctx.broken
    ctx.cov['states'] = sum(sp['distinct_states'] for sp in spaces)
    ctx.cov['transitions'] = sum(sp['calls_checked'] for sp in spaces)
    ctx.cov['exhaustive_state_space'] = {
        'scope': 'every in-scope call from every distinct reachable state (abstract sequences + iterators, and the concrete cells of the model incl. '
                 'stale tails), breadth first until no new state appears; histories reaching the same state are identified; keys 0,0,1,1',
        'spaces': spaces}
    if not ctx.violations:
        lean_spec_agrees(ctx, hs[:400])
        out_of_scope_stream(ctx, exe, rng, 40 if quick else 400)
    if not quick:
        ctx.cov['line_coverage_of_random_histories'] = line_coverage(ctx, hs)
    # lists far larger than the 8-node pool (C side only): every tier; more scenarios in the thorough tier and when something broke
    big_lists(ctx, rng, 4 if quick and not (ctx.broken or ctx.violations) else 24)
    for h in hs:
        ctx.count(tuple(h), nontrivial=len(h) >= 3)
    for h in exh:
        ctx.count(tuple(h))
    ctx.cov['traces_validated_against_impl'] = agreed
    ctx.cov['corpus_histories'] = ncorpus
    ctx.cov['ops_total'] = sum(len(h) for h in hs) + sum(len(h) for h in exh)
    ctx.cov['ops_histogram'] = histogram(hs)
    ctx.cov['shapes_hit'] = shape_counts(hs)
    ctx.cov['max_history_length'] = max(len(h) for h in hs)
    ctx.sample({'history_prefix': hs[ncorpus][:10], 'length': len(hs[ncorpus])})
    ctx.sample({'history_prefix': hs[-1][:10], 'length': len(hs[-1])})
    ctx.cov['rule'] = ('structured in-scope histories (length 3..200) over 8 nodes with integer keys x 3 lists x 4 iterators, biased to removal of the last/only element '
                       'followed by insert/push/sorted/iterator insert, iterators walked to and past the end, several iterators per list, sorted insertion among equal keys; '
                       'after every call the harness prints the return value, the traversal of every list and next of every free node; '
                       'compared with the Lean heap model and with an independent sequence oracle; distinct = distinct op list; non-trivial = at least 3 calls')
    ctx.assumptions.append(META['level_note'])


def replay(ctx, path):
    import json
    r = json.load(open(path))
    if r.get('family') == 'big-list':
        return big_replay(ctx, r)
    return vlib.replay_ops(ctx, path, 'list', [harness(ctx)], spec=spec)

"""C04 — message queue is safe for many concurrent senders and one receiver (tie D; inductive invariant over all interleavings)."""
import glob, hashlib, itertools, json, os
import vlib

META = {
    'engine': 'lean-D',
    'technique': 'Lean 4 inductive invariant (mq_inv) over an interleaving model of messageq.c at atomic-operation granularity: any number of senders n <= 128 (hence every n with n+32 < 128), '
                 'every depth 1..32, unbounded executions, weak-CAS spurious failures; model tied to the unmodified C by replaying schedules through a baton/shim harness and comparing per-operation logs',
    'level_text': 'For every reachable state of the model under every interleaving (free preemption; nested run-to-completion handlers are a subset): no slot is owned by two parties, the k-th successful receive returns '
                  'the k-th granted ticket, once, after it was sent, with the payload its claimer wrote; at most depth buffers are outstanding; a claim fails only if permits-in-use >= depth at its fetch_sub; '
                  'with no claim in progress num_free = depth - outstanding. Proved for the model with the C arithmetic (atomic_uchar read through signed char). The pre-fix arithmetic is proved to violate exclusive ownership (claim_wrap_counterexample).',
    'level_note': 'Trusted: Lean kernel (standard axioms only); the hand model is validated every run against the real messageq.c: identical per-operation logs (thread, op, field, order, before, after, returns) on sampled schedules '
                  '(random preemption, nested interrupt style, deliberately full queues with several claims in flight, and exhaustively all schedules of two single-message senders on depth 1-2 in the thorough tier), plus an independent '
                  'ownership monitor in the harness. Sequential consistency is assumed for the interleaving semantics (all accesses are seq_cst atomics or provably exclusive plain accesses; DRF-SC, see C07); '
                  'hardware mapping of seq_cst is not modelled. Liveness (a sent message is eventually received) is only checked at quiescence by the harness, not proved.',
    'design_ref': '§6 C04',
}
REQUIRED = ['Librfn.C04.mq_inv_init', 'Librfn.C04.mq_inv_step', 'Librfn.C04.mq_inv_reachable', 'Librfn.C04.mq_inv_all',
            'Librfn.C04.exclusive_ownership', 'Librfn.C04.outstanding_slots_distinct', 'Librfn.C04.claim_hands_out_unowned',
            'Librfn.C04.fifo_claim_order', 'Librfn.C04.exactly_once', 'Librfn.C04.receive_succeeds_iff', 'Librfn.C04.payload_intact',
            'Librfn.C04.claim_bounded', 'Librfn.C04.claim_fails_only_if_full', 'Librfn.C04.quiescent_count',
            'Librfn.C04.mq_no_adjacent_conflict', 'Librfn.C04.shifts_defined', 'Librfn.C04.claim_wrap_counterexample', 'Librfn.C04.d2_schedule_fixed']
MAXSEND = 7


# ----------------------------------------------------------------------------- scenarios
def scen(depth, msglen, rtries, poll, progs, toks):
    return {'cfg': f'{depth} {msglen} {rtries} {poll} ' + ' '.join(progs), 'schedule': list(toks)}


def nthreads(sc):
    return len(sc['cfg'].split()) - 4 + 1


def text_of(scs):
    return ''.join('reset\ncfg %s\nrun %s\n--\n' % (s['cfg'], ' '.join(s['schedule'])) for s in scs)


def gen_free(rng, big=False):
    """random free preemption"""
    ns = rng.range(1, 4)
    depth = rng.choice([1, 2, 3, 4, 32] if not big else [1, 2, 3, 4, 4, 32])
    progs, total = [], 0
    for _ in range(ns):
        k = rng.range(1, 3) if depth < 32 else rng.range(6, 14)
        progs.append(f's{k}'); total += k
    if rng.chance(1, 4) and ns < 4:
        progs.insert(rng.below(len(progs) + 1), 'h')
    rtries = rng.choice([0, total // 2, total, total + 2, total + 2])
    n = len(progs) + 1
    toks = []
    for _ in range(rng.range(4, 8 * total + 6)):
        t = rng.below(n)
        if rng.chance(1, 3) and toks:       # stay on the same thread for a while
            t = int(toks[-1].rstrip('!'))
        toks.append(f'{t}!' if rng.chance(1, 8) else str(t))
    return scen(depth, rng.choice([4, 8, 12]), rtries, rng.below(2), progs, toks)


def gen_isr(rng):
    """interrupt style: a thread is pre-empted by another one that runs a whole iteration to completion, nested"""
    ns = rng.range(2, 4)
    depth = rng.choice([1, 2, 3, 4, 32])
    progs = [f's{rng.range(1, 3)}' for _ in range(ns)]
    total = sum(int(p[1:]) for p in progs)
    n = ns + 1
    def isr(t, avail, level):
        toks = []
        for _ in range(rng.range(0, 5)):
            toks.append(str(t))
            if avail and level < 3 and rng.chance(1, 2):
                u = rng.choice(sorted(avail))
                toks += isr(u, avail - {u}, level + 1)
        toks.append(f'{t}!')
        return toks
    toks = []
    for _ in range(rng.range(2, 2 * total + 2)):
        t = rng.below(n)
        toks += isr(t, set(range(n)) - {t}, 0)
    return scen(depth, 4, rng.choice([total, total + 2]), rng.below(2), progs, toks)


def gen_full(rng):
    """queues that are full while several claims are in flight: fill the queue (holders and/or sent-but-unreleased
    messages), then let >= 2 claimers and the receiver interleave at single-operation granularity"""
    depth = rng.range(1, 4)
    nclaimers = rng.range(2, min(4, MAXSEND - depth))
    progs, fill = [], []
    for i in range(depth):
        if rng.chance(1, 2):
            progs.append('h')
        else:
            progs.append('s1')
        fill.append(f'{i}!')
    if rng.chance(1, 5):
        fill.pop()                                   # sometimes one buffer short of full
    claimers = list(range(depth, depth + nclaimers))
    for _ in claimers:
        progs.append(f's{rng.range(1, 2)}')
    r = len(progs)
    rtries = rng.choice([0, 1, 2, depth + 2])
    toks = list(fill)
    pool = claimers + ([r] if rtries else [])
    style = rng.below(3)
    if style == 0:       # A starts, B runs whole iterations inside A's window (the D2 shape), possibly nested
        order = rng.shuffle(list(claimers))
        for t in order[:-1]:
            toks += [str(t)] * rng.range(1, 2)
        toks.append(f'{order[-1]}!')
        for t in reversed(order[:-1]):
            if rng.chance(1, 3) and rtries:
                toks.append(f'{r}!')
            toks.append(f'{t}!')
    else:                # fine-grained random interleaving of the claimers (and the receiver)
        for _ in range(rng.range(6, 30)):
            t = rng.choice(pool)
            toks.append(f'{t}!' if rng.chance(1, 10) else str(t))
    return scen(depth, 4, rtries, rng.below(2), progs, toks)


def interleavings(counts):
    """all sequences containing counts[i] copies of i"""
    def rec(left):
        if not any(left):
            yield ()
            return
        for i, c in enumerate(left):
            if c:
                for rest in rec(left[:i] + (c - 1,) + left[i + 1:]):
                    yield (i,) + rest
    return rec(tuple(counts))


def exhaustive_two_senders():
    """all schedules of two senders x one claim/send each on depth 1-2:
    (A) claimers alone (6 operations each: 5 + one CAS retry), 0..depth buffers already held;
    (B) one message already sent, so the receiver's receive/read/release (3 operations) interleaves with the two
        claimers (5 operations each; operations left over after a CAS retry run at the end)"""
    out = []
    for depth in (1, 2):
        for held in range(0, depth + 1):
            progs = ['h'] * held + ['s1', 's1']
            fill = [f'{i}!' for i in range(held)]
            for seq in interleavings((6, 6)):
                out.append(scen(depth, 4, 0, 0, progs, fill + [str(held + t) for t in seq]))
    for (depth, pre) in ((1, ['s1']), (2, ['s1', 'h']), (2, ['s1'])):
        progs = pre + ['s1', 's1']
        fill = [f'{i}!' for i in range(len(pre))]
        base = len(pre)
        for seq in interleavings((5, 5, 3)):
            out.append(scen(depth, 4, 1, 0, progs, fill + [str(base + t) for t in seq]))
    return out


# ----------------------------------------------------------------------------- running
def harness(ctx):
    R = vlib.REPO
    exe, log = ctx.cc('h_messageq_conc', [os.path.join(vlib.VERIF, 'harness/h_messageq_conc.c'), R + '/librfn/messageq.c'],
                      ['-I' + os.path.join(vlib.VERIF, 'harness/shim_mq'), '-pthread'])
    if not exe:
        raise vlib.Infra('messageq interleaving harness does not compile against the repository: ' + log[-1500:])
    return exe


def run_impl(exe, scs, timeout):
    """outputs per scenario; a crash/timeout/step-limit ends the batch: the rest is re-run in a fresh process"""
    res, todo = [], list(scs)
    while todo:
        lines = vlib.run_exe([exe], text_of(todo), timeout)
        parts = vlib.split_histories(lines)
        if lines and lines[-1].startswith('!!'):
            k = min(len(parts), len(todo)) - 1           # scenario in which the harness died
            res += [p[2:] for p in parts[:k]]
            last = parts[k] if len(parts) <= len(todo) else parts[k] + parts[-1]
            res.append(last[2:] if len(last) > 2 else last)
            todo = todo[k + 1:]
        else:
            res += [p[2:] for p in parts[:len(todo)]]
            res += [['!! missing']] * (len(todo) - len(parts[:len(todo)]))
            todo = []
    return res


def run_model(ctx, scs, timeout):
    out = ctx.run_model(['messageq-conc'], text_of(scs), timeout).split('\n')
    if out and out[-1] == '':
        out.pop()
    return [p[2:] for p in vlib.split_histories(out)[:len(scs)]]


def monitor_complains(lines):
    return [l for l in lines if l.startswith('MONITOR:') or l.startswith('!!')]


def simpler(sc):
    """strictly simpler variants of a scenario (each reduces receiver attempts, polling, messages, threads or a token)"""
    w = sc['cfg'].split()
    head, progs = w[:4], w[4:]
    for d in sorted({1, 2, 4, int(head[0]) - 1}):
        if 1 <= d < int(head[0]):
            yield dict(sc, cfg=' '.join([str(d)] + head[1:] + progs))
    if int(head[2]) > 0:
        yield dict(sc, cfg=' '.join(head[:2] + [str(int(head[2]) - 1), head[3]] + progs))
    if head[3] != '0':
        yield dict(sc, cfg=' '.join(head[:3] + ['0'] + progs))
    for i, p in enumerate(progs):
        if p[0] == 's' and int(p[1:]) > 1:
            yield dict(sc, cfg=' '.join(head + progs[:i] + [f's{int(p[1:]) - 1}'] + progs[i + 1:]))
    if len(progs) > 1:
        for i in range(len(progs) - 1, -1, -1):      # drop sender i, renumber the tokens
            toks = []
            for t in sc['schedule']:
                n, bang = int(t.rstrip('!')), t.endswith('!')
                if n != i:
                    toks.append(f'{n - 1 if n > i else n}' + ('!' if bang else ''))
            yield {'cfg': ' '.join(head + progs[:i] + progs[i + 1:]), 'schedule': toks}


def shrink(ctx, exe, sc, fails):
    """delta-debug the schedule, then simplify the configuration (fewer messages, fewer attempts, fewer threads) to a fixpoint"""
    cur = {'cfg': sc['cfg'], 'schedule': list(sc['schedule'])}
    budget = 600
    while budget > 0:
        toks = vlib.ddmin(cur['schedule'], lambda t: bool(t) and fails(dict(cur, schedule=t)), max_tests=200)
        if len(toks) == 1 and fails(dict(cur, schedule=[])):
            toks = []
        cur = dict(cur, schedule=toks)
        for c in simpler(cur):
            budget -= 1
            if fails(c):
                cur = c
                break
        else:
            break
    return cur


def key_of(sc):
    return 'sched:' + hashlib.sha1((sc['cfg'] + '|' + ' '.join(sc['schedule'])).encode()).hexdigest()[:16]


def check_batch(ctx, exe, scs, label, timeout, stats):
    """compare implementation, model and monitor on a batch; returns number agreed, reports the first failure"""
    if not scs:
        return 0
    if len(scs) > 3000:          # big groups: the pthread harness is the slow side, run chunks of it in parallel
        from concurrent.futures import ThreadPoolExecutor
        chunks = [scs[o:o + 1500] for o in range(0, len(scs), 1500)]
        with ThreadPoolExecutor(max_workers=min(12, os.cpu_count() or 2)) as ex:
            impl = [r for part in ex.map(lambda c: run_impl(exe, c, timeout), chunks) for r in part]
    else:
        impl = run_impl(exe, scs, timeout)
    model = run_model(ctx, scs, timeout)
    agreed = 0
    for i, sc in enumerate(scs):
        io = impl[i] if i < len(impl) else ['!! missing']
        mo = model[i] if i < len(model) else ['!! missing']
        for l in io:
            w = l.split()
            if len(w) >= 6 and w[0][0] == 'T' and w[1] != 'ret' and w[3] != 'plain':
                stats['ops'][w[1]] = stats['ops'].get(w[1], 0) + 1
                if w[1] == 'fetch_sub' and (int(w[4]) == 0 or int(w[4]) >= 128):
                    stats['failing_claims'] += 1
                    if int(w[4]) >= 128:
                        stats['claims_inside_a_failing_claims_window'] += 1
            elif len(w) >= 4 and w[1] == 'ret' and w[2] == 'receive' and w[3] != 'NULL':
                stats['messages_received'] += 1
        bad = monitor_complains(io)
        if not bad and io == mo:
            agreed += 1
            continue
        if bad:
            def fails(c):
                return bool(monitor_complains(run_impl(exe, [c], 60)[0]))
            small = shrink(ctx, exe, sc, fails)
            out = run_impl(exe, [small], 60)[0]
            mout = run_model(ctx, [small], 60)[0]
            k = vlib.diff_streams(out, mout)
            ctx.violation({'obligation': f'{label}: ownership monitor on the real messageq.c under a controlled interleaving',
                           'cfg': small['cfg'], 'schedule': small['schedule'],
                           'monitor': monitor_complains(out)[:6],
                           'implementation_log': out[:60], 'model_log': mout[:60], 'first_difference_at_line': k,
                           'token_semantics': 'cfg = depth msglen receiver-attempts poll sender-programs (s<k>: k messages, h: claim and hold); '
                                              'schedule token t = one atomic/plain operation of thread t, t! = until its iteration completes; receiver = last thread id',
                           'how_to_rerun': f'./check {ctx.pid} --replay <this file>'}, key=key_of(small))
            return agreed
        # the monitor is silent but the logs differ: the model no longer mirrors the code
        k = vlib.diff_streams(io, mo)
        ctx.broken.append(f'correspondence {label}: per-operation log of the implementation differs from the model at line {k} '
                          f'(monitor silent) cfg="{sc["cfg"]}" schedule="{" ".join(sc["schedule"])[:200]}": impl={io[max(0, (k or 0) - 1):(k or 0) + 2]} model={mo[max(0, (k or 0) - 1):(k or 0) + 2]}')
        return agreed
    return agreed


def corpus():
    out = []
    for p in sorted(glob.glob(os.path.join(vlib.VERIF, 'corpus', 'C04', '*.json'))):
        j = json.load(open(p))
        out.append({'cfg': j['cfg'], 'schedule': j['schedule']})
    return out


def run(ctx):
    rng = vlib.Rng(ctx.seed)
    ctx.prove(['Librfn.Props.C04'], REQUIRED)
    exe = harness(ctx)
    if not ctx.build_model():
        return
    quick = ctx.tier == 'quick'
    stats = {'ops': {}, 'failing_claims': 0, 'claims_inside_a_failing_claims_window': 0, 'messages_received': 0}
    groups = [('corpus', corpus()),
              ('full-queue-claims-in-flight', [gen_full(rng) for _ in range(150 if quick else 6000)]),
              ('free-preemption', [gen_free(rng) for _ in range(120 if quick else 5000)]),
              ('interrupt-nesting', [gen_isr(rng) for _ in range(80 if quick else 3000)])]
    if not quick:
        ex = exhaustive_two_senders()
        groups.append(('exhaustive-two-senders', ex))
        ctx.cov['exhaustive'] = f'{len(ex)} schedules: every interleaving of two single-message senders (6 operations each) on depth 1-2 with 0..depth buffers pre-held, and every interleaving of two senders (5 operations each) with the receiver\'s receive/read/release of an already sent message on depth 1-2'
    total_agreed, per_group = 0, {}
    for (label, scs) in groups:
        nviol = len(ctx.violations)
        a = 0
        for off in range(0, len(scs), 60000):
            a += check_batch(ctx, exe, scs[off:off + 60000], label, 120 if quick else 900, stats)
            if len(ctx.violations) > nviol or ctx.broken:
                break
        per_group[label] = {'scenarios': len(scs), 'agreed': a}
        total_agreed += a
        for sc in scs:
            ctx.count((sc['cfg'], tuple(sc['schedule'])), nontrivial=len(sc['schedule']) >= 3)
        if ctx.violations:
            break
    if ctx.broken and not ctx.violations:
        # the model or a proof no longer matches the code and the monitor has not complained yet: search harder against the monitor
        deep = [gen_full(rng) for _ in range(4000)] + [gen_free(rng, big=True) for _ in range(3000)] + [gen_isr(rng) for _ in range(1500)] + exhaustive_two_senders()[:20000]
        for off in range(0, len(deep), 1000):
            part = deep[off:off + 1000]
            impl = run_impl(exe, part, 600)
            hit = [i for i in range(min(len(impl), len(part))) if monitor_complains(impl[i])]
            if hit:
                sc = part[hit[0]]
                small = shrink(ctx, exe, sc, lambda c: bool(monitor_complains(run_impl(exe, [c], 60)[0])))
                out = run_impl(exe, [small], 60)[0]
                ctx.violation({'obligation': 'deep search: ownership monitor on the real messageq.c', 'cfg': small['cfg'], 'schedule': small['schedule'],
                               'monitor': monitor_complains(out)[:6], 'implementation_log': out[:60],
                               'how_to_rerun': f'./check {ctx.pid} --replay <this file>'}, key=key_of(small))
                break
        ctx.cov['deep_search_scenarios'] = len(deep)
    ctx.cov['traces_validated_against_impl'] = total_agreed
    ctx.cov['groups'] = per_group
    ctx.cov['atomic_op_histogram'] = stats['ops']
    ctx.cov['failing_claims'] = stats['failing_claims']
    ctx.cov['claims_inside_a_failing_claims_window'] = stats['claims_inside_a_failing_claims_window']
    ctx.cov['messages_received'] = stats['messages_received']
    g = groups[1][1]
    ctx.sample(g[0]); ctx.sample(groups[2][1][0]); ctx.sample(groups[3][1][0])
    ctx.cov['rule'] = ('scenario = (depth 1-4 or 32, 1-7 senders each sending 1-3 (depth 32: 6-14) messages or claiming one buffer and holding it, receiver attempts, polling) + a schedule of thread ids; '
                       'three generators: queue filled then >= 2 claims interleaved at single-operation granularity incl. whole claims nested inside a failing claim\'s decrement/re-increment window; '
                       'random free preemption; nested run-to-completion (interrupt style); compared per scenario: full per-operation log of the real code vs the Lean model, and the harness\'s ownership monitor; '
                       'distinct = distinct (cfg, schedule); non-trivial = at least 3 tokens')
    ctx.assumptions.append(META['level_note'])


def replay(ctx, path):
    r = json.load(open(path))
    if 'schedule' not in r:
        print('replay names a broken obligation, not a schedule:', r.get('obligation'))
        return 1
    exe = harness(ctx)
    if not ctx.build_model():
        return 2
    sc = {'cfg': r['cfg'], 'schedule': r['schedule']}
    io = run_impl(exe, [sc], 60)[0]
    mo = run_model(ctx, [sc], 60)[0]
    print('cfg', sc['cfg']); print('schedule', ' '.join(sc['schedule']))
    print('implementation:'); print('\n'.join('  ' + l for l in io))
    k = vlib.diff_streams(io, mo)
    bad = monitor_complains(io)
    if k is not None:
        print(f'model differs from line {k}:'); print('\n'.join('  ' + l for l in mo[k:k + 8]))
    print('MONITOR VIOLATION' if bad else ('SAME' if k is None else 'DIFFER (monitor silent)'))
    return 1 if (bad or k is not None) else 0

"""C04 — message queue is safe for many concurrent senders and one receiver (tie D; inductive invariant over all interleavings)."""
import glob, hashlib, itertools, json, os, sys
from concurrent.futures import ThreadPoolExecutor
import vlib
import skeleton

META = {
    'engine': 'lean-D',
    'technique': 'Lean 4 inductive invariant (mq_inv) over an interleaving model of messageq.c at atomic-operation granularity: ANY number of senders (no bound), '
                 'every depth 1..32, unbounded executions, spurious failures of both weak compare-exchanges; model tied to the unmodified C by the extracted atomic-operation skeleton (tie S, decide obligation) '
                 'and by replaying schedules through a baton/shim harness and comparing per-operation logs (tie D)',
    'level_text': 'For every reachable state of the model under every interleaving (free preemption; nested run-to-completion handlers are a subset), for any number of senders: no slot is owned by two parties, the k-th successful receive returns '
                  'the k-th granted ticket, once, after it was sent, with the payload its claimer wrote; at most depth buffers are outstanding; a claim returns NULL only at a step at which it read the counter as 0, i.e. outstanding buffers + permits of claims in progress = depth; '
                  'with no claim in progress num_free = depth - outstanding; the counter never wraps. Proved for the model with the C arithmetic of the current code (compare-exchange loop on the atomic_uchar counter, fix 6099fe4). '
                  'Both earlier claim protocols are proved to violate exclusive ownership (claim_wrap_counterexample: unsigned fetch_sub, D2; claim_wrap_129_counterexample: signed fetch_sub with 129 nested failing claims, D12).',
    'level_note': 'Tie T2 (DESIGN 12): the sequential meaning of every messageq.c function is regenerated from the source each run and proved equal to Model.Messageq, whose arithmetic this interleaving model reuses (Props/C10Tie.lean: bv_decide certificates for the *_generated theorems only). Trusted: Lean kernel (standard axioms only); the hand model is validated every run against the real messageq.c: its access skeleton equals the one extracted from clang\'s AST (kinds, objects, memory orders, branch context, field atomicity), '
                  'and identical per-operation logs (thread, op, field, order, before, after, returns) on sampled schedules '
                  '(random preemption, nested interrupt style, deliberately full queues with several claims in flight, long sequential runs, deep synchronous nesting of > 128 claim contexts, and exhaustively all schedules of two single-message senders on depth 1-2 plus a preemption sweep in the thorough tier), plus an independent '
                  'ownership monitor in the harness. Sequential consistency is assumed for the interleaving semantics (all accesses are seq_cst atomics or provably exclusive plain accesses; DRF-SC, see C07); '
                  'hardware mapping of seq_cst is not modelled. Liveness (a sent message is eventually received; a claim loop terminates) is only checked at quiescence by the harness, not proved.',
    'design_ref': '§6 C04',
}
REQUIRED = ['Librfn.C04.mq_inv_init', 'Librfn.C04.mq_inv_step', 'Librfn.C04.mq_inv_reachable', 'Librfn.C04.mq_inv_all',
            'Librfn.C04.exclusive_ownership', 'Librfn.C04.outstanding_slots_distinct', 'Librfn.C04.claim_hands_out_unowned',
            'Librfn.C04.fifo_claim_order', 'Librfn.C04.exactly_once', 'Librfn.C04.receive_succeeds_iff', 'Librfn.C04.payload_intact',
            'Librfn.C04.claim_bounded', 'Librfn.C04.claim_fails_only_if_full', 'Librfn.C04.quiescent_count',
            'Librfn.C04.mq_no_adjacent_conflict', 'Librfn.C04.shifts_defined', 'Librfn.C04.counter_in_range', 'Librfn.C04.claim_wrap_counterexample', 'Librfn.C04.claim_wrap_129_counterexample',
            'Librfn.C04.claim_no_wrap_128', 'Librfn.C04.d2_schedule_fixed',
            'Librfn.C04.skeleton_matches_messageq', 'Librfn.C04.mq_ord_all_seqcst', 'Librfn.C04.mq_fields_atomic']
MAXSEND = 7


# ----------------------------------------------------------------------------- scenarios
def scen(depth, msglen, rtries, poll, progs, toks):
    return {'cfg': f'{depth} {msglen} {rtries} {poll} ' + ' '.join(progs), 'schedule': list(toks)}


def nthreads(sc):
    return len(sc['cfg'].split()) - 4 + 1


def text_of(scs):
    return ''.join(('reset\nnest %s\n--\n' % s['nest']) if 'nest' in s else
                   ('reset\ncfg %s\nrun %s\n--\n' % (s['cfg'], ' '.join(s['schedule']))) for s in scs)


def ident(sc):
    return ('nest', sc['nest']) if 'nest' in sc else (sc['cfg'], tuple(sc['schedule']))


def public(sc):
    """the part of a scenario that goes into a replay file"""
    if 'nest' in sc:
        return {'nest': sc['nest'],
                'nest_semantics': 'nest = depth msglen held levels where: on ONE thread, contexts 0..held-1 claim a buffer and keep it; then `levels` contexts each run '
                                  'claim [write send]; immediately before the (where+1)-th atomic operation of a context\'s claim the next context runs its whole '
                                  'iteration nested inside (interrupt style re-entry); contexts never reached run afterwards'}
    return {'cfg': sc['cfg'], 'schedule': sc['schedule']}


def gen_nest(rng, n):
    """deep synchronous nesting: more claim contexts than an 8-bit counter can count (> 128), nested inside each other's
    permission step, on full and nearly full queues; plus shallow ones"""
    out = []
    for i in range(n):
        depth = rng.choice([1, 1, 2, 3, 4])
        held = rng.choice([depth, depth, max(0, depth - 1), 0])
        levels = rng.choice([rng.range(129, 140), rng.range(129, 300), rng.range(250, 600), rng.range(2, 20)]) if i else 131
        where = rng.choice([1, 1, 2, 3])
        if i == 0:
            depth, held, where = 1, 1, 1
        out.append({'nest': f'{depth} 4 {held} {levels} {where}'})
    return out




def gen_free(rng, big=False):
    """random free preemption"""
    ns = rng.range(1, 4)
    depth = rng.choice([1, 2, 3, 4, 32] if not big else [1, 2, 3, 4, 4, 32])
    progs, total = [], 0
    for _ in range(ns):
        k = rng.range(1, 3) if depth < 32 else rng.range(6, 14)
        progs.append(f's{k}'); total += k
    if rng.chance(1, 4) and ns < 4:
        progs.insert(rng.below(len(progs) + 1), 'h')
    rtries = rng.choice([0, total // 2, total, total + 2, total + 2])
    n = len(progs) + 1
    toks = []
    for _ in range(rng.range(4, 8 * total + 6)):
        t = rng.below(n)
        if rng.chance(1, 3) and toks:       # stay on the same thread for a while
            t = int(toks[-1].rstrip('!'))
        toks.append(f'{t}!' if rng.chance(1, 8) else str(t))
    return scen(depth, rng.choice([4, 8, 12]), rtries, rng.below(2), progs, toks)


def gen_isr(rng):
    """interrupt style: a thread is pre-empted by another one that runs a whole iteration to completion, nested"""
    ns = rng.range(2, 4)
    depth = rng.choice([1, 2, 3, 4, 32])
    progs = [f's{rng.range(1, 3)}' for _ in range(ns)]
    total = sum(int(p[1:]) for p in progs)
    n = ns + 1
    def isr(t, avail, level):
        toks = []
        for _ in range(rng.range(0, 5)):
            toks.append(str(t))
            if avail and level < 3 and rng.chance(1, 2):
                u = rng.choice(sorted(avail))
                toks += isr(u, avail - {u}, level + 1)
        toks.append(f'{t}!')
        return toks
    toks = []
    for _ in range(rng.range(2, 2 * total + 2)):
        t = rng.below(n)
        toks += isr(t, set(range(n)) - {t}, 0)
    return scen(depth, 4, rng.choice([total, total + 2]), rng.below(2), progs, toks)


def gen_full(rng):
    """queues that are full while several claims are in flight: fill the queue (holders and/or sent-but-unreleased
    messages), then let >= 2 claimers and the receiver interleave at single-operation granularity"""
    depth = rng.range(1, 4)
    nclaimers = rng.range(2, min(4, MAXSEND - depth))
    progs, fill = [], []
    for i in range(depth):
        if rng.chance(1, 2):
            progs.append('h')
        else:
            progs.append('s1')
        fill.append(f'{i}!')
    if rng.chance(1, 5):
        fill.pop()                                   # sometimes one buffer short of full
    claimers = list(range(depth, depth + nclaimers))
    for _ in claimers:
        progs.append(f's{rng.range(1, 2)}')
    r = len(progs)
    rtries = rng.choice([0, 1, 2, depth + 2])
    toks = list(fill)
    pool = claimers + ([r] if rtries else [])
    style = rng.below(3)
    if style == 0:       # A starts, B runs whole iterations inside A's window (the D2 shape), possibly nested
        order = rng.shuffle(list(claimers))
        for t in order[:-1]:
            toks += [str(t)] * rng.range(1, 2)
        toks.append(f'{order[-1]}!')
        for t in reversed(order[:-1]):
            if rng.chance(1, 3) and rtries:
                toks.append(f'{r}!')
            toks.append(f'{t}!')
    else:                # fine-grained random interleaving of the claimers (and the receiver)
        for _ in range(rng.range(6, 30)):
            t = rng.choice(pool)
            toks.append(f'{t}!' if rng.chance(1, 10) else str(t))
    return scen(depth, 4, rtries, rng.below(2), progs, toks)


def interleavings(counts):
    """all sequences containing counts[i] copies of i"""
    def rec(left):
        if not any(left):
            yield ()
            return
        for i, c in enumerate(left):
            if c:
                for rest in rec(left[:i] + (c - 1,) + left[i + 1:]):
                    yield (i,) + rest
    return rec(tuple(counts))


def exhaustive_two_senders():
    """all schedules of two senders x one claim/send each on depth 1-2 (a claim/send is 6 operations: load and
    compare-exchange on num_free, load and compare-exchange on sendp, payload write, fetch_or):
    (A) claimers alone (7 operations each: 6 + one compare-exchange retry), 0..depth buffers already held;
    (B) one message already sent, so the receiver's receive/read/release (3 operations) interleaves with the two
        claimers (6 operations each; operations left over after a retry run at the end)"""
    out = []
    for depth in (1, 2):
        for held in range(0, depth + 1):
            progs = ['h'] * held + ['s1', 's1']
            fill = [f'{i}!' for i in range(held)]
            for seq in interleavings((7, 7)):
                out.append(scen(depth, 4, 0, 0, progs, fill + [str(held + t) for t in seq]))
    for (depth, pre, counts) in ((1, ['s1'], (6, 6, 3)), (2, ['s1', 'h'], (5, 5, 3)), (2, ['s1'], (5, 5, 3))):
        progs = pre + ['s1', 's1']
        fill = [f'{i}!' for i in range(len(pre))]
        base = len(pre)
        for seq in interleavings(counts):
            out.append(scen(depth, 4, 1, 0, progs, fill + [str(base + t) for t in seq]))
    return out


def gen_long_sequential(rng, n=8, depths=None, msglen=4, cycles=None):
    """long SEQUENTIAL runs (no preemption at all): >= 300 claim/send/receive/release cycles on depths that do not divide
    256, in bursts of 1..depth messages, so that every 8-bit index / counter of the structure wraps several times"""
    out = []
    depths = depths or ([3, 5, 6, 7] + rng.shuffle([9, 10, 11, 12, 13, 15, 17, 24, 31])[:max(0, n - 4)])
    cyc = cycles
    for d in depths[:n]:
        cycles = cyc or rng.range(300, 420)
        ns = rng.range(1, min(3, d))
        per = (cycles + ns - 1) // ns
        progs = [f's{per}'] * ns
        r = ns
        toks, done = [], 0
        while done < per:
            burst = rng.range(1, max(1, min(d // ns, 3)))
            for _ in range(burst):
                toks += [f'{i}!' for i in range(ns)]
            toks += [f'{r}!'] * (burst * ns)
            done += burst
        out.append(scen(d, msglen, per * ns + 4, 0, progs, toks))
    return out


def step_threads(log):
    """thread id of every operation (atomic or plain payload access) in an implementation log, in order"""
    out = []
    for l in log:
        w = l.split()
        if len(w) >= 5 and w[0][0] == 'T' and w[0][1:].isdigit() and w[1] != 'ret':
            out.append(int(w[0][1:]))
    return out


def sweep_configs():
    """small configurations for the systematic preemption sweep: depth 1-2, 0..depth buffers pre-held (h) or pre-sent (s1),
    1-3 senders, the receiver; base = the serial round-robin schedule"""
    out = []
    for depth in (1, 2):
        pres = [()]
        for k in range(1, depth + 1):
            pres += [c for c in itertools.combinations_with_replacement(('h', 's1'), k)]
        for pre in pres:
            for ns in (1, 2, 3):
                per = 2 if ns < 3 else 1
                progs = list(pre) + [f's{per}'] * ns
                np_ = len(pre)
                senders = list(range(np_, np_ + ns))
                r = np_ + ns
                nmsg = per * ns + sum(1 for x in pre if x == 's1')
                prefix = [f'{i}!' for i in range(np_)]
                body = []
                for _ in range(per):
                    for t in senders:
                        body += [f'{t}!', f'{r}!']
                body += [f'{r}!'] * 2
                out.append({'cfg': f'{depth} 4 {nmsg + 3} 0 ' + ' '.join(progs), 'prefix': prefix, 'body': body,
                            'threads': senders + [r], 'pre_threads': list(range(np_))})
    return out


def sweep_level1(exe, timeout=300):
    """single preemption, driven by the implementation: run the serial base, read off which thread performed each
    operation, and at EVERY operation position let every other thread run one whole iteration"""
    cfgs = sweep_configs()
    base = run_impl(exe, [{'cfg': c['cfg'], 'schedule': c['prefix'] + c['body']} for c in cfgs], timeout)
    scs, meta = [], []
    for c, log in zip(cfgs, base):
        steps = [t for t in step_threads(log) if t not in c['pre_threads']]
        c['steps'] = steps
        for p in range(len(steps) + 1):
            cur = steps[p] if p < len(steps) else None
            for u in c['threads']:
                if u == cur:
                    continue
                toks = c['prefix'] + [str(t) for t in steps[:p]] + [f'{u}!'] + [str(t) for t in steps[p:]]
                scs.append({'cfg': c['cfg'], 'schedule': toks})
                meta.append((c, p, u))
    return scs, meta


def sweep_level2(exe, scs1, meta1, logs1):
    """two preemptions: inside the pre-empting iteration of level 1 (its length is read off the implementation's log),
    at every operation position, every other thread runs one whole iteration"""
    out = []
    for sc, (c, p, u), log in zip(scs1, meta1, logs1):
        steps_all = step_threads(log)
        npre = sum(1 for t in steps_all if t in c['pre_threads'])
        body = steps_all[npre:]
        n_u = 0
        while p + n_u < len(body) and body[p + n_u] == u:
            n_u += 1
        if p < len(c['steps']) and n_u == 0:
            continue
        steps = c['steps']
        for q in range(0, n_u):
            for w in c['threads']:
                if w == u:
                    continue
                toks = c['prefix'] + [str(t) for t in steps[:p]] + [str(u)] * q + [f'{w}!', f'{u}!'] + [str(t) for t in steps[p:]]
                out.append({'cfg': c['cfg'], 'schedule': toks})
    return out


def run_impl_parallel(exe, scs, timeout):
    if len(scs) <= 3000:
        return run_impl(exe, scs, timeout)
    chunks = [scs[o:o + 1500] for o in range(0, len(scs), 1500)]
    with ThreadPoolExecutor(max_workers=min(12, os.cpu_count() or 2)) as ex:
        return [r for part in ex.map(lambda c: run_impl(exe, c, timeout), chunks) for r in part]


# ----------------------------------------------------------------------------- running
def harness(ctx):
    R = vlib.REPO
    exe, log = ctx.cc('h_messageq_conc', [os.path.join(vlib.VERIF, 'harness/h_messageq_conc.c'), R + '/librfn/messageq.c'],
                      ['-I' + os.path.join(vlib.VERIF, 'harness/shim_mq'), '-pthread'])
    if not exe:
        raise vlib.Unbuildable('messageq interleaving harness does not compile against the repository: ' + log[-1500:])
    return exe


def run_impl(exe, scs, timeout):
    """outputs per scenario; a crash/timeout/step-limit ends the batch: the rest is re-run in a fresh process"""
    res, todo = [], list(scs)
    while todo:
        lines = vlib.run_exe([exe], text_of(todo), timeout)
        parts = vlib.split_histories(lines)
        if lines and lines[-1].startswith('!!'):
            k = min(len(parts), len(todo)) - 1           # scenario in which the harness died
            res += [p[2:] for p in parts[:k]]
            last = parts[k] if len(parts) <= len(todo) else parts[k] + parts[-1]
            res.append(last[2:] if len(last) > 2 else last)
            todo = todo[k + 1:]
        else:
            res += [p[2:] for p in parts[:len(todo)]]
            res += [['!! missing']] * (len(todo) - len(parts[:len(todo)]))
            todo = []
    return res


def run_model(ctx, scs, timeout):
    out = ctx.run_model(['messageq-conc'], text_of(scs), timeout).split('\n')
    if out and out[-1] == '':
        out.pop()
    return [p[2:] for p in vlib.split_histories(out)[:len(scs)]]


def monitor_complains(lines):
    return [l for l in lines if l.startswith('MONITOR:') or l.startswith('!!')]


def simpler(sc):
    """strictly simpler variants of a scenario (each reduces receiver attempts, polling, messages, threads or a token)"""
    if 'nest' in sc:
        d, m, held, levels, where = [int(x) for x in sc['nest'].split()]
        def mk(d, held, levels, where):
            return {'nest': f'{d} {m} {min(held, d)} {levels} {where}'}
        if d > 1:
            yield mk(1, held, levels, where)
            yield mk(d - 1, held - 1, levels, where)
        if where > 1:
            yield mk(d, held, levels, 1)
        for l in (levels // 2, levels - 32, levels - 8, levels - 1):
            if 1 <= l < levels:
                yield mk(d, held, l, where)
        if held > 0:
            yield mk(d, held - 1, levels, where)
        return
    w = sc['cfg'].split()
    head, progs = w[:4], w[4:]
    for d in sorted({1, 2, 4, int(head[0]) - 1}):
        if 1 <= d < int(head[0]):
            yield dict(sc, cfg=' '.join([str(d)] + head[1:] + progs))
    if int(head[2]) > 8:
        yield dict(sc, cfg=' '.join(head[:2] + [str(int(head[2]) // 2), head[3]] + progs))
    if int(head[2]) > 0:
        yield dict(sc, cfg=' '.join(head[:2] + [str(int(head[2]) - 1), head[3]] + progs))
    if head[3] != '0':
        yield dict(sc, cfg=' '.join(head[:3] + ['0'] + progs))
    for i, p in enumerate(progs):
        if p[0] == 's' and int(p[1:]) > 8:
            yield dict(sc, cfg=' '.join(head + progs[:i] + [f's{int(p[1:]) // 2}'] + progs[i + 1:]))
        if p[0] == 's' and int(p[1:]) > 1:
            yield dict(sc, cfg=' '.join(head + progs[:i] + [f's{int(p[1:]) - 1}'] + progs[i + 1:]))
    if len(progs) > 1:
        for i in range(len(progs) - 1, -1, -1):      # drop sender i, renumber the tokens
            toks = []
            for t in sc['schedule']:
                n, bang = int(t.rstrip('!')), t.endswith('!')
                if n != i:
                    toks.append(f'{n - 1 if n > i else n}' + ('!' if bang else ''))
            yield {'cfg': ' '.join(head + progs[:i] + progs[i + 1:]), 'schedule': toks}


def shrink(ctx, exe, sc, fails, max_tests=450):
    """delta-debug the schedule, simplify the configuration greedily (smaller depth, fewer attempts, fewer messages, fewer
    threads), delta-debug again; bounded number of harness runs (the result need not be minimal, it must be a witness)"""
    tests = [0]
    def f(c):
        tests[0] += 1
        return fails(c)
    if 'nest' in sc:
        cur, progress = dict(sc), True
        while progress and tests[0] < 200:
            progress = False
            for c in simpler(cur):
                if f(c):
                    cur, progress = c, True
                    break
        return cur
    cur = {'cfg': sc['cfg'], 'schedule': list(sc['schedule'])}
    dd = 120
    if len(cur['schedule']) > 150:       # long runs: every harness run is slow, a rough witness is enough
        max_tests, dd = 140, 40
    cur['schedule'] = vlib.ddmin(cur['schedule'], lambda t: bool(t) and f(dict(cur, schedule=t)), max_tests=dd)
    progress = True
    while progress and tests[0] < max_tests:
        progress = False
        for c in simpler(cur):
            if tests[0] >= max_tests:
                break
            if f(c):
                cur, progress = c, True
                break
    toks = vlib.ddmin(cur['schedule'], lambda t: bool(t) and f(dict(cur, schedule=t)), max_tests=dd)
    if len(toks) == 1 and f(dict(cur, schedule=[])):
        toks = []
    return dict(cur, schedule=toks)


def key_of(sc):
    if 'nest' in sc:
        return 'nest:' + sc['nest'].replace(' ', '-')
    return 'sched:' + hashlib.sha1((sc['cfg'] + '|' + ' '.join(sc['schedule'])).encode()).hexdigest()[:16]


def check_batch(ctx, exe, scs, label, timeout, stats):
    """compare implementation, model and monitor on a batch; returns number agreed, reports the first failure"""
    if not scs:
        return 0
    impl = run_impl_parallel(exe, scs, timeout)
    model = run_model(ctx, scs, timeout)
    agreed = 0
    first_diff = None
    for i, sc in enumerate(scs):
        io = impl[i] if i < len(impl) else ['!! missing']
        mo = model[i] if i < len(model) else ['!! missing']
        for l in io:
            w = l.split()
            if len(w) >= 6 and w[0][0] == 'T' and w[1] != 'ret' and w[3] != 'plain':
                stats['ops'][w[1]] = stats['ops'].get(w[1], 0) + 1
                if w[1] == 'cas_fail' and w[2] == 'num_free':
                    stats['failed_cas_on_num_free'] += 1
            elif len(w) >= 4 and w[1] == 'ret' and w[2] == 'receive' and w[3] != 'NULL':
                stats['messages_received'] += 1
            elif len(w) >= 4 and w[1] == 'ret' and w[2] == 'claim' and w[3] == 'NULL':
                stats['failing_claims'] += 1
        bad = monitor_complains(io)
        if not bad and io == mo:
            if first_diff is None:
                agreed += 1
            continue
        if bad:
            def fails(c):
                return bool(monitor_complains(run_impl(exe, [c], 60)[0]))
            small = shrink(ctx, exe, sc, fails)
            out = run_impl(exe, [small], 60)[0]
            mout = run_model(ctx, [small], 60)[0]
            k = vlib.diff_streams(out, mout)
            bad2 = monitor_complains(out)
            first = out.index(bad2[0]) if bad2 and bad2[0] in out else 0
            ctx.violation({'obligation': f'{label}: ownership monitor on the real messageq.c under a controlled interleaving',
                           **public(small),
                           'monitor': bad2[:6],
                           'implementation_log': out[:60] if first < 60 else out[:8] + ['...'] + out[first - 30:first + 8],
                           'model_log': mout[:60] if first < 60 else mout[:8], 'first_difference_at_line': k,
                           'token_semantics': 'cfg = depth msglen receiver-attempts poll sender-programs (s<k>: k messages, h: claim and hold); '
                                              'schedule token t = one atomic/plain operation of thread t, t! = until its iteration completes; receiver = last thread id',
                           'how_to_rerun': f'./check {ctx.pid} --replay <this file>'}, key=key_of(small))
            return agreed
        # the monitor is silent but the logs differ: the model no longer mirrors the code; keep scanning the batch for a
        # scenario on which the monitor does complain (that is the concrete counterexample), report the break otherwise
        if first_diff is None:
            first_diff = (sc, io, mo)
    if first_diff is not None:
        sc, io, mo = first_diff
        k = vlib.diff_streams(io, mo)
        ctx.broken.append(f'correspondence {label}: per-operation log of the implementation differs from the model at line {k} '
                          f'(monitor silent) scenario={json.dumps(public(sc))[:300]}: impl={io[max(0, (k or 0) - 1):(k or 0) + 2]} model={mo[max(0, (k or 0) - 1):(k or 0) + 2]}')
    return agreed


def corpus():
    out = []
    for p in sorted(glob.glob(os.path.join(vlib.VERIF, 'corpus', 'C04', '*.json'))):
        j = json.load(open(p))
        out.append({'nest': j['nest']} if 'nest' in j else {'cfg': j['cfg'], 'schedule': j['schedule']})
    return out


def run(ctx):
    rng = vlib.Rng(ctx.seed)
    for unit, err in skeleton.regen_skeleton(['messageq']):
        ctx.broken.append(f'tie S: atomic-operation skeleton of {unit} could not be extracted from the source: {err}')
    sys.path.insert(0, os.path.dirname(os.path.abspath(__file__)))
    import tie_common
    tie_common.prove(ctx, ['MessageqSeq'], ['Librfn.Props.C04'], REQUIRED, 'Librfn.Props.C10Tie', 'Librfn.C10.Tie')
    exe = harness(ctx)
    if not ctx.build_model():
        return
    quick = ctx.tier == 'quick'
    stats = {'ops': {}, 'failing_claims': 0, 'failed_cas_on_num_free': 0, 'messages_received': 0}
    groups = [('corpus', corpus()),
              ('full-queue-claims-in-flight', [gen_full(rng) for _ in range(150 if quick else 6000)]),
              ('free-preemption', [gen_free(rng) for _ in range(120 if quick else 5000)]),
              ('interrupt-nesting', [gen_isr(rng) for _ in range(80 if quick else 3000)])]
    groups.append(('long-sequential', gen_long_sequential(rng, 2 if quick else 10)))
    # storage of 64 KiB and more (offsets that no longer fit 16 bits), every slot used twice
    groups.append(('large-geometry-sequential', gen_long_sequential(rng, 2, depths=[32, rng.choice([17, 24, 31])], msglen=4096, cycles=70)))
    groups.append(('deep-synchronous-nesting', gen_nest(rng, 10 if quick else 400)))
    if not quick:
        l1, _ = sweep_level1(exe)
        groups.append(('preemption-sweep-level-1', l1))
        ex = exhaustive_two_senders()
        groups.append(('exhaustive-two-senders', ex))
        ctx.cov['exhaustive'] = f'{len(ex)} schedules: every interleaving of two single-message senders (7 operations each) on depth 1-2 with 0..depth buffers pre-held, and every interleaving of two senders (6 operations each on depth 1; their first 5 on depth 2) with the receiver\'s receive/read/release of an already sent message'
    total_agreed, per_group = 0, {}
    for (label, scs) in groups:
        nviol = len(ctx.violations)
        a = 0
        for off in range(0, len(scs), 60000):
            a += check_batch(ctx, exe, scs[off:off + 60000], label, 120 if quick else 900, stats)
            if len(ctx.violations) > nviol or ctx.broken:
                break
        per_group[label] = {'scenarios': len(scs), 'agreed': a}
        total_agreed += a
        for sc in scs:
            ctx.count(ident(sc), nontrivial='nest' in sc or len(sc['schedule']) >= 3)
        if ctx.violations:
            break
    if ctx.broken and not ctx.violations:
        # the model or a proof no longer matches the code and the monitor has not complained yet: search harder, judged by the
        # ownership monitor alone (the model is no longer a reference)
        def report(sc, label):
            small = shrink(ctx, exe, sc, lambda c: bool(monitor_complains(run_impl(exe, [c], 60)[0])))
            out = run_impl(exe, [small], 60)[0]
            bad = monitor_complains(out)
            first = out.index(bad[0]) if bad and bad[0] in out else 0
            ctx.violation({'obligation': f'deep search ({label}): ownership monitor on the real messageq.c', **public(small), 'monitor': bad[:6], 'implementation_log_around_first_complaint': out[max(0, first - 24):first + 6],
                           'implementation_log_tail': out[-6:],
                           'token_semantics': 'cfg = depth msglen receiver-attempts poll sender-programs (s<k>: k messages, h: claim and hold); '
                                              'schedule token t = one atomic/plain operation of thread t, t! = until its iteration completes; receiver = last thread id',
                           'how_to_rerun': f'./check {ctx.pid} --replay <this file>'}, key=key_of(small))
        def search(scs, label):
            impl = run_impl_parallel(exe, scs, 600)
            deep_counts[label] = len(scs)
            for i in range(min(len(impl), len(scs))):
                if monitor_complains(impl[i]):
                    report(scs[i], label)
                    return True, impl
            return False, impl
        deep_counts = {}
        found, _ = search(gen_long_sequential(rng, 13), 'long sequential runs')
        if not found:
            found, _ = search(gen_nest(rng, 300), 'deep synchronous nesting')
        if not found:
            l1, m1 = sweep_level1(exe)
            found, logs1 = search(l1, 'preemption sweep, one preemption at every operation position')
            if not found:
                found, _ = search(sweep_level2(exe, l1, m1, logs1), 'preemption sweep, two nested preemptions')
        if not found:
            found, _ = search([gen_full(rng) for _ in range(4000)] + [gen_free(rng, big=True) for _ in range(3000)] + [gen_isr(rng) for _ in range(1500)], 'random campaign')
        if not found:
            found, _ = search(exhaustive_two_senders()[:20000], 'exhaustive two senders')
        ctx.cov['deep_search_scenarios'] = deep_counts
    ctx.cov['traces_validated_against_impl'] = total_agreed
    ctx.cov['groups'] = per_group
    ctx.cov['atomic_op_histogram'] = stats['ops']
    ctx.cov['failing_claims'] = stats['failing_claims']
    ctx.cov['failed_cas_on_num_free'] = stats['failed_cas_on_num_free']
    ctx.cov['messages_received'] = stats['messages_received']
    g = groups[1][1]
    ctx.sample(g[0]); ctx.sample(groups[2][1][0]); ctx.sample(groups[3][1][0])
    ctx.cov['rule'] = ('scenario = (depth 1-4 or 32, 1-7 senders each sending 1-3 (depth 32: 6-14) messages or claiming one buffer and holding it, receiver attempts, polling) + a schedule of thread ids; '
                       'generators: long sequential runs (>= 300 cycles on depths not dividing 256); deep synchronous nesting of 129..600 claim contexts inside each other\'s permission step (one OS thread, re-entry from the shim hook); queue filled then >= 2 claims interleaved at single-operation granularity incl. whole claims nested inside a failing claim\'s decrement/re-increment window; '
                       'random free preemption; nested run-to-completion (interrupt style); compared per scenario: full per-operation log of the real code vs the Lean model, and the harness\'s ownership monitor; '
                       'distinct = distinct (cfg, schedule); non-trivial = at least 3 tokens')
    ctx.assumptions.append(META['level_note'])


def replay(ctx, path):
    r = json.load(open(path))
    if 'schedule' not in r and 'nest' not in r:
        print('replay names a broken obligation, not a schedule:', r.get('obligation'))
        return 1
    exe = harness(ctx)
    if not ctx.build_model():
        return 2
    sc = {'nest': r['nest']} if 'nest' in r else {'cfg': r['cfg'], 'schedule': r['schedule']}
    io = run_impl(exe, [sc], 60)[0]
    mo = run_model(ctx, [sc], 60)[0]
    print(json.dumps(public(sc))[:2000])
    print('implementation:'); print('\n'.join('  ' + l for l in (io if len(io) < 200 else io[:40] + ['  ...'] + io[-80:])))
    k = vlib.diff_streams(io, mo)
    bad = monitor_complains(io)
    if k is not None:
        print(f'model differs from line {k}:'); print('\n'.join('  ' + l for l in mo[k:k + 8]))
    print('MONITOR VIOLATION' if bad else ('SAME' if k is None else 'DIFFER (monitor silent)'))
    return 1 if (bad or k is not None) else 0

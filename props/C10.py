"""C10 — message queue is a bounded FIFO of fixed buffers for every geometry (tie D; kernel-only refinement proof)."""
import glob, json, os, sys
import vlib
sys.path.insert(0, os.path.dirname(os.path.abspath(__file__)))

META = {
    'engine': 'lean-D',
    'technique': 'Lean 4 translation tie (messageq.c regenerated into Lean on every run, proved equal to the model function by function by bv_decide + kernel arithmetic) under a Lean 4 refinement proof (simulation relation, induction over all API-permitted operation lists, every depth 1..32, every message size 1..65535, every slack) '
                 'of a hand model of messageq.c with the C integer widths against a ticket-window FIFO specification; model tied to the C by differential runs over geometries',
    'level_text': 'For every depth 1..32, message size 1..65535 (the uint16_t field), slack < message size and every sequential history in which sends are reordered among claimed messages and releases follow receives '
                  '(any length): claim returns base+(k mod depth)*size for the k-th grant (pairwise disjoint ranges inside the first depth*size bytes, cyclic) and NULL iff claimed-released = depth; '
                  'receive returns ticket number `received` iff it has been sent, else NULL; messageq_empty iff receive would return NULL; slack bytes lie outside every returned range; bit 31 behaves as any other flag; '
                  'messageq_init and MESSAGEQ_VAR_INIT give equal structures. Proved for the model; the model is compared with the real code on sampled geometries/histories every run.',
    'level_note': 'Trusted: Lean kernel (standard axioms; one bv_decide certificate axiom per *_generated theorem of Props/C10Tie.lean, none in the C10 theorems themselves); tools/c2lean2.py + clang AST (tie T2: init/claim/send/receive/release/empty regenerated from messageq.c and proved equal to the model on every well-formed structure, the model answers undefined exactly where the C divides by zero or shifts out of range); hand model of messageq.c/.h validated each run against the real code (offsets, NULLs, empty, full struct contents after every op, guard and slack bytes, '
                  'masked memcmp of the two initialisers); message sizes above 65535 do not fit the uint16_t msg_len field and are outside the proved scope (the library truncates them); '
                  'the library never reads or writes the storage, so "never touched" is address arithmetic (proved) plus guard bytes under ASan (sampled).',
    'design_ref': '§6 C10',
}
REQUIRED = ['Librfn.C10.history_refines', 'Librfn.C10.history_refines_init', 'Librfn.C10.rel_after', 'Librfn.C10.claim_spec', 'Librfn.C10.receive_spec',
            'Librfn.C10.empty_iff_receive_null', 'Librfn.C10.outstanding_ranges_disjoint', 'Librfn.C10.cyclic', 'Librfn.C10.slack_untouched',
            'Librfn.C10.bit31_is_a_flag', 'Librfn.C10.init_eq_static']
SIZES = [1, 2, 3, 4, 7, 8, 12, 255, 4096]


# ----------------------------------------------------------------------------- oracle written from the property text
class Fifo:
    """window of tickets: [released, received) held by the receiver, [received, claimed) claimed or sent"""
    def __init__(self, d, m):
        self.d, self.m = d, m
        self.claimed = self.received = self.released = 0
        self.sent = set()
    def off(self, k):
        return (k % self.d) * self.m
    def ticket_of(self, off):
        for k in range(self.received, self.claimed):
            if self.off(k) == off and k not in self.sent:
                return k
        return None
    def state(self):
        flags = sum(1 << (k % self.d) for k in self.sent if k >= self.received)
        return (f'qlen={self.d} msglen={self.m} free={self.d - (self.claimed - self.released)} sendp={self.claimed % self.d} '
                f'flags={flags} receivep={self.received % self.d}')


def spec(h):
    out, f = [], None
    for l in h:
        w = l.split()
        if w[0] == 'init':
            f = Fifo(int(w[1]), int(w[2]))
            out.append('init eq=1 ' + f.state())
        elif w[0] == 'claim':
            if f.claimed - f.released == f.d:
                out.append('NULL')
            else:
                out.append(str(f.off(f.claimed))); f.claimed += 1
        elif w[0] == 'send':
            f.sent.add(f.ticket_of(int(w[1]))); out.append('ok')
        elif w[0] == 'receive':
            if f.received < f.claimed and f.received in f.sent:
                out.append(str(f.off(f.received))); f.received += 1
            else:
                out.append('NULL')
        elif w[0] == 'release':
            f.released += 1; out.append('ok')
        elif w[0] == 'empty':
            out.append('0' if f.received < f.claimed and f.received in f.sent else '1')
        elif w[0] == 'state':
            out.append(f.state())
        elif w[0] == 'guard':
            out.append('guard ok')
    return out


def valid(h):
    """scope: geometry depth 1..32, size 1..65535, slack < size; sends name a claimed unsent message; releases follow receives"""
    if not h or not h[0].startswith('init '):
        return False
    f = None
    for i, l in enumerate(h):
        w = l.split()
        if w[0] == 'init':
            if i != 0:
                return False
            d, m, k = int(w[1]), int(w[2]), int(w[3])
            if not (1 <= d <= 32 and 1 <= m <= 65535 and 0 <= k < m):
                return False
            f = Fifo(d, m)
        elif w[0] == 'claim':
            if f.claimed - f.released < f.d:
                f.claimed += 1
        elif w[0] == 'send':
            k = f.ticket_of(int(w[1]))
            if k is None:
                return False
            f.sent.add(k)
        elif w[0] == 'receive':
            if f.received < f.claimed and f.received in f.sent:
                f.received += 1
        elif w[0] == 'release':
            if f.released >= f.received:
                return False
            f.released += 1
    return True


# ----------------------------------------------------------------------------- generator
def gen_history(rng, d, m, k, nops, probe_every):
    """structured, always in scope: bursts of claims up to (and past) full, sends in shuffled order among the claimed
    messages, premature receives, several messages held at once, observation ops after every step when probe_every"""
    h = [f'init {d} {m} {k}']
    f = Fifo(d, m)
    def probe():
        if probe_every:
            h.append('empty')
            if rng.chance(1, 3):
                h.append('state')
        elif rng.chance(1, 5):
            h.append(rng.choice(['empty', 'state', 'guard']))
    mode = rng.below(4)        # 0: ping-pong, 1: fill/drain, 2: random walk, 3: nearly full with wrap
    while len(h) < nops:
        unsent = [t for t in range(f.received, f.claimed) if t not in f.sent]
        choices = []
        full = f.claimed - f.released == d
        if mode == 1:
            burst = rng.choice(['c', 's', 'r'])
            if burst == 'c':
                for _ in range(d - (f.claimed - f.released) + rng.below(2)):
                    h.append('claim')
                    if f.claimed - f.released < d:
                        f.claimed += 1
                    probe()
            elif burst == 's':
                for t in rng.shuffle(list(unsent)):
                    if rng.chance(5, 6):
                        h.append(f'send {f.off(t)}'); f.sent.add(t); probe()
                    if rng.chance(1, 3):
                        h.append('receive')
                        if f.received < f.claimed and f.received in f.sent:
                            f.received += 1
                        probe()
            else:
                hold = rng.chance(1, 3)
                while True:
                    h.append('receive'); probe()
                    if f.received < f.claimed and f.received in f.sent:
                        f.received += 1
                        if not hold:
                            h.append('release'); f.released += 1; probe()
                    else:
                        break
                while f.released < f.received:
                    h.append('release'); f.released += 1; probe()
            continue
        wc = 6 if (mode == 3 or not full) else 1
        choices += ['claim'] * wc
        if unsent:
            choices += ['send'] * (5 if mode != 3 else 3)
        choices += ['receive'] * (3 if mode != 3 else 2)
        if f.released < f.received:
            choices += ['release'] * (4 if mode != 3 else 2)
        op = rng.choice(choices)
        if op == 'claim':
            h.append('claim')
            if not full:
                f.claimed += 1
        elif op == 'send':
            t = unsent[0] if (mode == 0 or rng.chance(1, 2)) else rng.choice(unsent)
            h.append(f'send {f.off(t)}'); f.sent.add(t)
        elif op == 'receive':
            h.append('receive')
            if f.received < f.claimed and f.received in f.sent:
                f.received += 1
        else:
            h.append('release'); f.released += 1
        probe()
    h += ['empty', 'state', 'guard']
    return h


def gen_long(rng, d, m, k, cycles):
    """a long plain run: >= 300 claim/send/receive/release cycles in bursts of 1..depth messages (sends in shuffled order),
    so that every 8-bit index and counter of the structure wraps more than once; few observation ops (they are cheap but
    the point here is the returned pointers)"""
    h = [f'init {d} {m} {k}']
    f = Fifo(d, m)
    done = 0
    while done < cycles:
        burst = rng.range(1, d)
        ts = []
        for _ in range(burst):
            h.append('claim'); ts.append(f.claimed); f.claimed += 1
        if rng.chance(1, 8):
            h.append('claim')                       # NULL when the burst filled the queue, else one more grant
            if f.claimed - f.released < d:
                ts.append(f.claimed); f.claimed += 1
        for t in rng.shuffle(list(ts)):
            h.append(f'send {f.off(t)}'); f.sent.add(t)
        hold = rng.chance(1, 3)
        for _ in ts:
            h.append('receive'); f.received += 1
            if not hold:
                h.append('release'); f.released += 1
        if hold:
            h += ['release'] * len(ts); f.released += len(ts)
        if rng.chance(1, 6):
            h += ['receive', 'empty']
        done += len(ts)
    h += ['empty', 'state', 'guard']
    return h


def gen_saturated(rng, d, m, k, cycles):
    """a producer that is always ahead of the consumer: the queue is kept full for the whole run, every release is followed
    by one successful claim and by refused ones (before the release, after the receive, after the refill), for more cycles
    than any 8-bit counter or index of the structure has values - a refusal is attempted at every counter value"""
    h = [f'init {d} {m} {k}']
    f = Fifo(d, m)
    for _ in range(d):
        h.append('claim'); f.claimed += 1
    for c in range(cycles):
        if rng.chance(2, 3): h.append('claim')                       # full: NULL
        unsent = [t for t in range(f.received, f.claimed) if t not in f.sent]
        for t in (rng.shuffle(list(unsent)) if rng.chance(1, 4) else unsent[:1]):
            h.append(f'send {f.off(t)}'); f.sent.add(t)
        h.append('receive'); f.received += 1
        if rng.chance(1, 2): h.append('claim')                       # received but not released: still full, NULL
        h.append('release'); f.released += 1
        h.append('claim'); f.claimed += 1                             # the freed buffer
        if rng.chance(1, 2): h.append('claim')                       # full again: NULL
        if rng.chance(1, 40): h.append('empty')
    h += ['empty', 'state', 'guard']
    return h


def geometries(rng, n):
    """depth 1..32 (each depth at least once when n >= 32, 1/2/31/32 more often) x sizes x slack"""
    out = []
    depths = list(range(1, 33)) + [1, 2, 3, 31, 32, 32]
    rng.shuffle(depths)
    for i in range(n):
        d = depths[i % len(depths)]
        m = rng.choice(SIZES) if rng.chance(5, 6) else rng.choice([5, 16, 100, 256, 1000, 65535])
        k = rng.choice([0, 0, 1, m - 1, rng.below(m)])
        out.append((d, m, min(k, m - 1)))
    return out


def exhaustive(d, m, k, maxlen):
    """all in-scope histories of claim / send (any claimed unsent) / receive / release up to maxlen ops, each followed by `empty`"""
    res = []
    def rec(prefix, f, n):
        res.append([f'init {d} {m} {k}'] + [x for p in prefix for x in (p, 'empty')] + ['state', 'guard'])
        if n == 0:
            return
        import copy
        # claim
        g = copy.copy(f); g.sent = set(f.sent)
        if g.claimed - g.released < d:
            g.claimed += 1
        rec(prefix + ['claim'], g, n - 1)
        for t in range(f.received, f.claimed):
            if t not in f.sent:
                g = copy.copy(f); g.sent = set(f.sent) | {t}
                rec(prefix + [f'send {f.off(t)}'], g, n - 1)
        g = copy.copy(f); g.sent = set(f.sent)
        if g.received < g.claimed and g.received in g.sent:
            g.received += 1
        rec(prefix + ['receive'], g, n - 1)
        if f.released < f.received:
            g = copy.copy(f); g.sent = set(f.sent); g.released += 1
            rec(prefix + ['release'], g, n - 1)
    rec([], Fifo(d, m), maxlen)
    return res


def harness(ctx):
    R = vlib.REPO
    return ctx.cc_harness('h_messageq', [os.path.join(vlib.VERIF, 'harness/h_messageq.c'), R + '/librfn/messageq.c'], what='messageq harness')


def bb_norm(l):
    """public-interface-only harness build: what init prints about the structure is masked on every side"""
    return 'init eq=1 ?' if l.startswith('init eq=') else l


def corpus():
    hs = []
    for p in sorted(glob.glob(os.path.join(vlib.VERIF, 'corpus', 'C10', '*.json'))):
        hs.append([l for l in json.load(open(p))['ops'] if l != 'reset'])
    return hs


def run(ctx):
    rng = vlib.Rng(ctx.seed)
    import tie_common
    tie_common.prove(ctx, ['MessageqSeq'], ['Librfn.Props.C10'], REQUIRED, 'Librfn.Props.C10Tie', 'Librfn.C10.Tie',
                     dependents=[('Librfn.Props.C10Gen', 'Librfn.C10.Gen')])
    exe = harness(ctx)
    quick = ctx.tier == 'quick'
    hs = corpus()
    ncorpus = len(hs)
    for hint in tie_common.sat_hints(ctx):       # a broken bit-vector obligation names a structure state: try the geometries it suggests
        for d in {32, max(1, min(32, hint.get('ql', 32))), max(1, min(32, hint.get('sp', 31) + 1)), max(1, min(32, hint.get('rp', 31) + 1))}:
            for m in {hint.get('ml', 4096) or 1, 4096, 65535}:
                hs.append(gen_saturated(rng, d, m, 0, 3 * d + 8))
    for (d, m, k) in geometries(rng, 76 if quick else 8000):
        nops = rng.choice([12, 40, 40, 6 * d + 20, 8 * d + 40])
        hs.append(gen_history(rng, d, m, k, nops, probe_every=rng.chance(1, 2)))
    long_depths = rng.shuffle([3, 5, 6, 7])[:2] + [rng.choice([9, 11, 12, 13, 15, 24, 31])] if quick else [3, 5, 6, 7, 9, 10, 11, 12, 13, 15, 17, 24, 31]
    nlong = 0
    for d in long_depths:
        m = rng.choice([1, 3, 4, 8])
        hs.append(gen_long(rng, d, m, rng.below(m), rng.range(300, 400) if quick else rng.range(520, 800))); nlong += 1
    for d in ([rng.choice([1, 2, 4, 8]), rng.choice([3, 5, 7, 12, 31, 32])] if quick else [1, 2, 3, 4, 5, 7, 8, 12, 16, 31, 32]):
        m = rng.choice([1, 3, 4, 8])
        hs.append(gen_saturated(rng, d, m, rng.below(m), rng.range(560, 700) if quick else rng.range(1100, 1400))); nlong += 1
    nexh = 0
    if not quick:
        for (d, m, k, L) in [(1, 3, 2, 10), (2, 7, 0, 8), (3, 4, 1, 7), (32, 1, 0, 4)]:
            e = exhaustive(d, m, k, L); nexh += len(e); hs += e
    bad = [h for h in hs if not valid(h)]
    if bad:
        raise vlib.Infra('generator produced an out-of-scope history: %r' % bad[0][:10])
    # first what a caller can observe (pointers, NULLs, empty, guard bytes): a difference there is the property failing;
    # then the same histories with the `state` dumps (every field of the structure after every step): the model mirroring the code
    obs = [[l for l in h if l != 'state'] for h in hs]
    agreed = vlib.correspond(ctx, 'messageq', [exe], obs, spec=spec, valid=valid, label='messageq (observable results)',
                             norm=bb_norm if ctx.blackbox else None)
    if not ctx.violations and not ctx.broken and not ctx.blackbox:
        agreed = vlib.correspond(ctx, 'messageq', [exe], hs, spec=spec, valid=valid, label='messageq (with structure contents)')
    depths, sizes, ops, nulls, wraps, b31 = {}, {}, {}, 0, 0, 0
    for h in hs:
        w = h[0].split(); d = int(w[1])
        depths[d] = depths.get(d, 0) + 1
        sizes[w[2]] = sizes.get(w[2], 0) + 1
        nclaim = 0
        for l in h[1:]:
            o = l.split()[0]; ops[o] = ops.get(o, 0) + 1
            nclaim += o == 'claim'
        if nclaim > d:
            wraps += 1
        if d == 32 and nclaim >= 32:
            b31 += 1
        ctx.count(tuple(h), nontrivial=len(h) > 6)
    so = [x for h in hs[:200] for x in spec(h)]
    ctx.cov['traces_validated_against_impl'] = agreed
    ctx.cov['corpus_histories'] = ncorpus
    ctx.cov['ops_total'] = sum(len(h) for h in hs)
    ctx.cov['op_histogram'] = ops
    ctx.cov['depth_histogram'] = {str(k): v for k, v in sorted(depths.items())}
    ctx.cov['msg_size_histogram'] = sizes
    ctx.cov['histories_wrapping_the_index'] = wraps
    ctx.cov['long_histories_over_300_cycles'] = nlong
    ctx.cov['depth32_histories_reaching_bit31'] = b31
    ctx.cov['null_results_in_first_200'] = so.count('NULL')
    if nexh:
        ctx.cov['exhaustive'] = f'{nexh} histories: every in-scope op list up to 10/8/7/4 ops on geometries (1,3,2) (2,7,0) (3,4,1) (32,1,0)'
    ctx.sample({'history_prefix': hs[ncorpus][:10], 'length': len(hs[ncorpus])})
    ctx.sample({'history_prefix': hs[-1][:10], 'length': len(hs[-1])})
    ctx.cov['rule'] = ('geometries depth 1..32 x sizes {1,2,3,4,7,8,12,255,4096,..} x slack {0,1,size-1,random}; histories of claim/send/receive/release in four shapes '
                       '(long runs of >= 300 cycles on depths not dividing 256, ping-pong, fill/drain bursts with shuffled sends and several messages held, random walk, nearly-full with wrap), observation ops (empty/state/guard) after every step in half of them; '
                       'outputs compared: returned offsets/NULL, empty, all struct fields, guard+slack+slot bytes, initialiser equality; distinct = distinct op list; non-trivial = more than 6 ops')
    ctx.assumptions.append(META['level_note'])


def replay(ctx, path):
    exe = harness(ctx)
    return vlib.replay_ops(ctx, path, 'messageq', [exe], spec=spec, norm=bb_norm if ctx.blackbox else None)

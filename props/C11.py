"""C11 — tree iterators visit in the promised order, restore the tree, and free safely (tie D + Lean proofs)."""
import hashlib, json, os, sys, time
import vlib

sys.setrecursionlimit(20000)      # the shrinker walks labelled trees recursively (depth up to 200)

META = {
    'engine': 'lean-D',
    'technique': 'Lean 4 proofs by structural induction over all tree shapes (continuation formulation of Morris threading for the in-order and pre-order iterators, '
                 'visited-prefix invariant for the tagged post-order walk, bintree_free as that walk on a shrinking tree, list iterators by induction along the spine) '
                 'about a statement-by-statement hand model of bintree.c in which every access to a deallocated node is an error result; '
                 'model tied to the C by differential runs over every small shape plus degenerate/random shapes under ASan',
    'level_text': 'Proved for every binary tree with pairwise distinct node ids (any shape, any size, incl. empty and single node), with any loop fuel >= 2*size+2: '
                  'iterating to completion with the in-order, pre-order and post-order iterators returns exactly the recursive in/pre/post-order sequence (hence each node once), '
                  'the post-order iterator reports each node\'s true parent, and the final heap IS the initial heap (every thread and tag undone); '
                  'bintree_free calls the deallocator on exactly the post-order sequence, never reads or writes a deallocated node (such an access is an error result in the model, and the result is proved not to be an error), '
                  'patches the live parent\'s link before the parent is reached, leaves all nodes of the tree dead and the rest of the heap untouched; bintree_free_left/right additionally clear the caller\'s link; '
                  'the list iterator yields the recursive bintree_traverse_list sequence on every right-leaning and every left-leaning list spine without modifying the heap; '
                  'the C recursive traversals equal the specification\'s traversals. All theorems are at full strength (no _partial). '
                  'The tie to the C source is a correspondence run: every shape <= 7 nodes (quick) / <= 9 nodes (thorough, 4862 shapes of 9 nodes), spines/zig-zags/complete trees and random shapes up to 200 nodes, list spines up to 90 list nodes.',
    'level_note': 'Trusted: Lean kernel (axioms propext and Quot.sound only); the hand model lean/Librfn/Model/Bintree.lean (pointer and tag bit of `left` are independent components: this is exactly the assumption of the property that nodes are at least 2-byte aligned, so only bit 0 of a node address is free; the correspondence run exercises it at alignments 2, 4 and 8 by placing nodes at addresses 0, 2, 4 and 6 mod 8 in exactly-sized blocks — x86 tolerates the unaligned pointer fields and the harness is not built with -fsanitize=alignment; '
                  'the deallocator really frees; the is_list callback inspects its node and answers false for NULL); the model-vs-C tie is sampling (exhaustive over small shapes, not a proof about the C text): '
                  'visit sequences, iter.parent at each post-order visit, link/tag images after completion and in the middle of cut-short iterations, deallocator logs, ASan on individually malloc\'ed nodes. '
                  'Distinct node ids in the theorems correspond to distinct addresses of live nodes. '
                  'NOT covered by a theorem, only by the correspondence run (sampling): (0) bintree_visualize and bintree_graphviz (also into failing streams) and bintree_is_leaf are not modelled at all - they must only observe the tree, so the check compares the link image after each call with the image before it and then iterates and frees normally (the recursive bintree_traverse_* are modelled as pure functions and get the same treatment); (a) re-entrancy - a deallocator that itself calls bintree_free on another tree the node owns '
                  '(the model threads the iterator as a local value and its free is a pure function that leaves everything outside its tree untouched, so the expected log is the composition over the disjoint trees; '
                  'the harness nests the real calls two levels deep); (b) constant stack space on maximally unbalanced trees - the model has no notion of stack; left/right/zig-zag chains of 6000-20000 nodes '
                  '(thorough: 12000-100000) are iterated in all orders and freed by the real code in a thread with a 128 KiB stack, compared with the Python specification only.',
    'design_ref': '§6 C11',
}
REQUIRED = ['Librfn.C11.' + n for n in (
    'morris_in_continuation', 'in_order_iterator_correct', 'in_order_each_node_once',
    'morris_pre_continuation', 'pre_order_iterator_correct', 'pre_order_each_node_once',
    'tagging_pass_tags_every_node', 'descend_returns_first_unvisited', 'untag_advances_prefix',
    'post_order_iterator_correct', 'post_order_each_node_once',
    'free_patches_parent_first', 'free_children_first_once_no_uaf', 'free_left_clears_link', 'free_right_clears_link',
    'list_iterator_right_spine', 'list_iterator_left_spine',
    'trav_in_order', 'trav_pre_order', 'trav_post_order', 'trav_list')]

ORDERS = ('in', 'pre', 'post')

# --------------------------------------------------------------------------- shapes
# a shape is None or a pair (left, right); a labelled tree is None or [id, left, right]

_shape_cache = {0: [None]}


def shapes(n):
    """all binary tree shapes with exactly n nodes (Catalan(n) of them)"""
    if n not in _shape_cache:
        out = []
        for k in range(n):
            for l in shapes(k):
                for r in shapes(n - 1 - k):
                    out.append((l, r))
        _shape_cache[n] = out
    return _shape_cache[n]


def size(s):
    n, stack = 0, [s]
    while stack:
        t = stack.pop()
        if t is not None:
            n += 1; stack.append(t[-2]); stack.append(t[-1])
    return n


def build(n, split):
    """shape with n nodes; split(n) chooses the size of the left subtree (iterative: depth may be 200)"""
    if n == 0:
        return None
    root = [None, None]
    work = [(root, n)]
    while work:
        cell, m = work.pop()
        k = split(m)
        for side, sz in ((0, k), (1, m - 1 - k)):
            if sz:
                child = [None, None]
                cell[side] = child
                work.append((child, sz))
    return freeze(root)


def freeze(cell):
    """nested lists -> nested tuples, without recursion"""
    out = {}
    stack = [(cell, False)]
    while stack:
        c, done = stack.pop()
        if c is None:
            continue
        if done:
            out[id(c)] = (out.get(id(c[0])) if c[0] is not None else None, out.get(id(c[1])) if c[1] is not None else None)
        else:
            stack.append((c, True)); stack.append((c[0], False)); stack.append((c[1], False))
    return out[id(cell)]


def left_spine(n):
    return build(n, lambda m: m - 1)


def right_spine(n):
    return build(n, lambda m: 0)


def zigzag(n, phase=0):
    st = {'d': phase}
    def split(m):
        st['d'] += 1
        return m - 1 if st['d'] % 2 else 0
    return build(n, split)


def complete(n):
    return build(n, lambda m: m // 2)


def random_shape(rng, n):
    mode = rng.below(4)
    def split(m):
        if mode == 0:
            return rng.below(m)                      # uniform split: bushy
        if mode == 1:
            return rng.choice([0, m - 1, rng.below(m)])   # long chains with bushes
        if mode == 2:
            return m - 1 if rng.chance(3, 4) else rng.below(m)   # left-heavy: long threads
        return 0 if rng.chance(3, 4) else rng.below(m)
    return build(n, split)


def label(shape, perm=None):
    """labelled tree with ids in pre-order (or perm[pre-order index]); returns (tree, n)"""
    if shape is None:
        return None, 0
    cnt = 0
    root = [0, None, None]
    work = [(root, shape)]
    while work:
        node, s = work.pop()
        node[0] = perm[cnt] if perm else cnt
        cnt += 1
        # push right first so that the left subtree is numbered first
        if s[1] is not None:
            node[2] = [0, None, None]; work.append((node[2], s[1]))
        if s[0] is not None:
            node[1] = [0, None, None]; work.append((node[1], s[0]))
    return root, cnt


OFFSETS = (0, 2, 4, 6)      # node address mod 8: the property grants no more than 2-byte alignment


def align_of(line):
    """per-node byte offsets named by a tree line (`… align o0 o1 …`, cycled over the nodes); [] if none"""
    w = line.split()
    if 'align' not in w:
        return []
    o = [int(x) for x in w[w.index('align') + 1:]]
    n = int(w[1])
    return [o[i % len(o)] for i in range(n)] if o else []


def pick_align(rng, n, mode):
    """mode: None | 2 | 4 | 6 (every node at that offset) | 'mixed' (per node, at least one node off the 8-byte grid)"""
    if mode is None or n == 0:
        return None
    if mode == 'mixed':
        o = [rng.choice(OFFSETS) for _ in range(n)]
        if not any(o):
            o[rng.below(n)] = rng.choice(OFFSETS[1:])
        return o
    return [mode]


def tree_line(tree, n, offs=None):
    l = ['-'] * n; r = ['-'] * n
    stack = [tree]
    while stack:
        t = stack.pop()
        if t is None:
            continue
        if t[1] is not None:
            l[t[0]] = str(t[1][0]); stack.append(t[1])
        if t[2] is not None:
            r[t[0]] = str(t[2][0]); stack.append(t[2])
    links = []
    for i in range(n):
        links += [l[i], r[i]]
    suffix = ['align'] + [str(o) for o in offs] if offs and any(offs) else []
    return ' '.join(['tree', str(n), '-' if tree is None else str(tree[0])] + links + suffix)


def paren(tree):
    """canonical text of a labelled tree's shape"""
    out, stack = [], [tree]
    while stack:
        t = stack.pop()
        if t is None:
            out.append('.')
        elif isinstance(t, str):
            out.append(t)
        else:
            out.append('('); stack.append(')'); stack.append(t[2]); stack.append(t[1])
    return ''.join(out)


# --------------------------------------------------------------------------- specification (from the property text)
class Spec:
    """the abstract tree: links of every live node; recursive traversals"""
    def __init__(self):
        self.n, self.root, self.l, self.r, self.dead, self.lists = 0, None, [], [], [], set()
        self.rest, self.post, self.open = None, False, False
        self.owns = {}

    def trav(self, order, root):
        """recursive traversal (explicit stack); post-order entries carry the parent"""
        out, stack = [], [(root, None, 0)]
        while stack:
            t, parent, state = stack.pop()
            if t is None:
                continue
            if order == 'list':
                if t in self.lists:
                    stack.append((self.r[t], t, 0)); stack.append((self.l[t], t, 0))
                else:
                    out.append((t, None))
                continue
            if state == 1:
                out.append((t, parent)); continue
            if order == 'pre':
                stack.append((self.r[t], t, 0)); stack.append((self.l[t], t, 0)); stack.append((t, parent, 1))
            elif order == 'in':
                stack.append((self.r[t], t, 0)); stack.append((t, parent, 1)); stack.append((self.l[t], t, 0))
            else:
                stack.append((t, parent, 1)); stack.append((self.r[t], t, 0)); stack.append((self.l[t], t, 0))
        return out

    def show(self, seq, post, tag='seq'):
        p = lambda x: '-' if x is None else str(x)
        return ' '.join([tag] + [(f'{x}/{p(par)}' if post else str(x)) for x, par in seq])

    def image(self):
        p = lambda x: '-' if x is None else str(x)
        return ' '.join(['img'] + ['x' if self.dead[i] else f'{p(self.l[i])},0,{p(self.r[i])}' for i in range(self.n)])

    def kill(self, root):
        """what the deallocator is handed, in order: the post-order sequence of the tree, and right after each
        node that owns another tree the same for that tree (the deallocator frees it with a nested bintree_free)"""
        out, work = [], [iter(self.trav('post', root))]
        while work:
            x = next(work[-1], None)
            if x is None:
                work.pop(); continue
            out.append(x); self.dead[x[0]] = True
            j = self.owns.pop(x[0], None)
            if j is not None:
                work.append(iter(self.trav('post', j)))
        return out

    def step(self, line):
        """expected output line, or None where the property prescribes nothing (links in the middle of an iteration)"""
        w = line.split()
        if w[0] == 'reset':
            self.__init__(); return 'ok'
        if w[0] == 'tree':
            self.__init__()
            self.n = int(w[1]); self.root = None if w[2] == '-' else int(w[2])
            g = lambda x: None if x == '-' else int(x)
            self.l = [g(w[3 + 2 * i]) for i in range(self.n)]; self.r = [g(w[4 + 2 * i]) for i in range(self.n)]
            self.dead = [False] * self.n
            return 'ok'
        if w[0] == 'lists':
            self.lists = set(int(x) for x in w[1:]); return 'ok'
        if w[0] == 'owns':
            for a, b in zip(w[1::2], w[2::2]):
                self.owns[int(a)] = int(b)
            return 'ok'
        if w[0] == 'image':
            return None if self.open else self.image()
        if w[0] == 'trav':
            return self.show(self.trav(w[1], self.root), False)
        if w[0] in ('iter', 'riter'):
            seq = self.trav(w[1], self.root); self.post = w[1] == 'post'
            if len(w) > 2:
                k = max(int(w[2]), 1)
                self.open = len(seq) >= k     # the k-th call returned a node: the iteration is still open
                self.rest = seq[k:]; seq = seq[:k]
            else:
                self.open = False
            return self.show(seq, self.post)
        if w[0] == 'resume':
            seq = self.rest if self.open else []
            self.open = False
            return self.show(seq, self.post)
        if w[0] == 'complete':
            self.open = False
            return 'done'
        if w[0] == 'leaf':
            i = int(w[1]); return f'leaf {int(self.l[i] is None and self.r[i] is None)}'
        if w[0] in ('viz', 'dot'):
            # what bintree_visualize / bintree_graphviz print is not part of this property (a change of the dump format is
            # no violation): nothing is prescribed for the line itself, only that the links stay as they were (next `image`)
            return None
        if w[0] == 'free':
            seq = self.kill(self.root); self.root = None
            return self.show(seq, False, 'freed')
        if w[0] in ('freel', 'freer'):
            i = int(w[1]); side = self.l if w[0] == 'freel' else self.r
            seq = self.kill(side[i]); side[i] = None
            return self.show(seq, False, 'freed')
        return 'bad-op'


def spec(h):
    s = Spec()
    return [s.step(l) for l in h]


def model_agrees(impl, model):
    """implementation output = model output, where the model answers (`~`: a pure observer the model does not describe)"""
    return len(impl) == len(model) and all(m == '~' or a == m for a, m in zip(impl, model))


def matches(out, exp):
    """output lines agree with the expectation (None = not prescribed)"""
    return len(out) == len(exp) and all(e is None or o == e for o, e in zip(out, exp))


# --------------------------------------------------------------------------- scope of the property
def spine_kind(s, root):
    """'left' / 'right' / 'both' if the tree under root is an in-scope list spine for the marked list nodes, else None"""
    if root is None:
        return None
    def elem(t):
        return t is not None and t not in s.lists
    def walk(side_spine, side_elem):
        t = root
        while t is not None and t in s.lists:
            if not elem(side_elem[t]):
                return False
            t = side_spine[t]
        return elem(t)
    L, R = walk(s.l, s.r), walk(s.r, s.l)
    return 'both' if L and R else 'left' if L else 'right' if R else None


def owns_ok(s, ids):
    """ownership pairs (owner, root of the owned tree): live nodes, the owned node is the root of a tree of the forest
    other than the main tree, owned once, and ownership between trees is acyclic (the trees are disjoint by construction)"""
    if len(ids) % 2 or any(not (0 <= x < s.n) or s.dead[x] for x in ids):
        return False
    child = set(x for x in s.l + s.r if x is not None)
    tree_of = {}
    for r in range(s.n):
        if r not in child:
            for x, _ in s.trav('pre', r):
                tree_of[x] = r
    owner_tree = {}
    for a, b in zip(ids[0::2], ids[1::2]):
        if b in child or b == s.root or b in owner_tree or b in s.owns.values() or a in s.owns or tree_of.get(a) is None:
            return False
        owner_tree[b] = tree_of[a]
    for b in owner_tree:            # walk up: must end at a tree nobody owns (no cycle)
        seen, t = set(), b
        while t in owner_tree:
            if t in seen:
                return False
            seen.add(t); t = owner_tree[t]
    return True


def valid(h):
    """the history stays inside what the property talks about: complete iterations of an intact tree
    (a cut-short iteration is resumed before anything but `image`), list iteration only on list spines,
    operations on live nodes only"""
    s = Spec()
    for line in h:
        w = line.split()
        if w[0] not in ('reset', 'tree', 'lists', 'owns', 'image', 'trav', 'iter', 'riter', 'resume', 'complete', 'viz', 'dot', 'leaf', 'free', 'freel', 'freer'):
            return False
        if w[0] == 'leaf' and not (len(w) == 2 and 0 <= int(w[1]) < s.n and not s.dead[int(w[1])]):
            return False
        if w[0] == 'dot' and not (len(w) >= 2 and (w[1] == 'ok' or (w[1] == 'fail' and len(w) == 3 and int(w[2]) >= 0))):
            return False
        if w[0] == 'owns' and not owns_ok(s, [int(x) for x in w[1:]]):
            return False
        if s.open and w[0] not in ('image', 'resume', 'complete'):
            return False
        if w[0] in ('iter', 'riter', 'trav') and w[1] == 'list':
            if s.root is not None and spine_kind(s, s.root) is None:
                return False
        if w[0] in ('iter', 'riter') and len(w) > 2 and int(w[2]) < 1:
            return False
        if w[0] in ('freel', 'freer') and not (0 <= int(w[1]) < s.n and not s.dead[int(w[1])]):
            return False
        if w[0] == 'lists' and any(not (0 <= int(x) < s.n) or s.dead[int(x)] for x in w[1:]):
            return False
        s.step(line)
    return not s.open


# --------------------------------------------------------------------------- histories
def std_ops(rng, n, partial=True):
    ops = []
    for o in rng.shuffle(list(ORDERS)):
        ops += [f'trav {o}', f'iter {o}', 'image']
        if partial and n and rng.chance(1, 2):
            ops += [f'iter {o} {rng.range(1, n + 1)}', 'image', 'resume', 'image']
    return ops


def history(rng, shape, mode, align=None):
    n = size(shape)
    perm = rng.shuffle(list(range(n))) if rng.chance(1, 3) else None
    tree, _ = label(shape, perm)
    if align == 'any':
        align = rng.choice([None, 2, 4, 6, 'mixed', 'mixed'])
    h = [tree_line(tree, n, pick_align(rng, n, align))]
    if mode == 'aligned':
        # the tag lives in the low bit of `left`: post-order and free first, then the threads, one cut-short post-order
        h += ['iter post', 'image', 'iter in', 'image', 'iter pre', 'image']
        if n:
            h += [f'iter post {rng.range(1, n)}', 'image', 'resume', 'image']
            if rng.chance(1, 2):
                h += [rng.choice(['freel', 'freer']) + f' {rng.below(n)}', 'image', 'iter post', 'image']
        h += ['free', 'image']
    elif mode == 'exhaustive':
        # every order, then a sub-tree free, iterate what is left, free the rest
        h += std_ops(rng, n)
        if n:
            v = rng.below(n)
            h += [rng.choice(['freel', 'freer']) + f' {v}', 'image'] + std_ops(rng, n, partial=False)
        h += ['free', 'image', 'iter in', 'free']
    elif mode == 'free-first':
        h += ['free', 'image']
    else:
        h += std_ops(rng, n)
        h += ['free', 'image']
    return h


def list_history(rng, m, leaning, bushy):
    """a list spine of m list nodes; elements optionally carry sub-trees of their own"""
    nodes = []          # [id, left, right]
    def new():
        nodes.append([len(nodes), None, None]); return nodes[-1]
    def elem():
        e = new()
        if bushy and rng.chance(1, 2):
            sub, _ = label(random_shape(rng, rng.range(1, 4)))
            # graft a small sub-tree below the element (re-labelled into this tree's id space)
            def graft(t):
                if t is None:
                    return None
                x = new(); x[1] = graft(t[1]); x[2] = graft(t[2]); return x
            if rng.chance(1, 2):
                e[1] = graft(sub)
            else:
                e[2] = graft(sub)
        return e
    lists = []
    if m == 0:
        root = elem()
    else:
        root = new(); lists.append(root[0]); cur = root
        for i in range(m):
            a, b = (1, 2) if leaning == 'left' else (2, 1)
            cur[b] = elem()
            if i == m - 1:
                cur[a] = elem()
            else:
                cur[a] = new(); lists.append(cur[a][0]); cur = cur[a]
    n = len(nodes)
    perm = rng.shuffle(list(range(n))) if rng.chance(1, 2) else list(range(n))
    def relabel(t):
        if t is None:
            return None
        return [perm[t[0]], relabel(t[1]), relabel(t[2])]
    h = [tree_line(relabel(root), n, pick_align(rng, n, rng.choice([None, 2, 4, 6, 'mixed']))),
         ' '.join(['lists'] + [str(perm[i]) for i in lists])]
    h += ['trav list', 'iter list', 'image']
    total = len(Spec_for(h).trav('list', Spec_for(h).root))
    if total:
        h += [f'iter list {rng.range(1, total + 1)}', 'image', 'resume', 'image']
    h += rng.choice([['iter in', 'image'], ['iter post', 'image'], ['free', 'image'], []])
    return h


def reuse_history(rng, shape=None, m=None, leaning='left'):
    """one bintree_iterator_t used for several iterations one after the other (`riter`): completed ones, ones cut short and
    finished with bintree_iterate_complete or resumed, of every order - state a previous use left in the object must not
    change the next iteration"""
    if m is not None:
        h = list_history(rng, m, leaning, bushy=rng.chance(1, 2))[:2]       # tree + lists lines of a list spine
        orders = ['list', 'in', 'post', 'pre', 'list']
    else:
        n = size(shape)
        tree, _ = label(shape, rng.shuffle(list(range(n))) if rng.chance(1, 3) else None)
        h = [tree_line(tree, n, pick_align(rng, n, rng.choice([None, 2, 'mixed'])))]
        orders = ['in', 'post', 'pre']
    s = Spec_for(h)
    first = rng.choice(orders)
    h += [f'iter {first}', 'image']
    for _ in range(rng.range(2, 5)):
        o = rng.choice(orders)
        total = len(s.trav(o, s.root))
        if total and rng.chance(1, 3):
            h += [f'riter {o} {rng.range(1, total)}', rng.choice(['resume', 'complete']), 'image']
        else:
            h += [f'riter {o}', 'image']
    h += rng.choice([['free', 'image'], []])
    return h


def forest_line(trees, n, offs=None):
    """tree line for a forest of labelled trees over ids 0…n-1; the first tree is the main one"""
    base = tree_line(trees[0], n).split()
    for t in trees[1:]:
        w = tree_line(t, n).split()
        for i in range(3, 3 + 2 * n):
            if w[i] != '-':
                base[i] = w[i]
    suffix = ['align'] + [str(o) for o in offs] if offs and any(offs) else []
    return ' '.join(base + suffix)


def relabel_from(tree, start):
    """pre-order ids start, start+1, …; returns (tree, next free id)"""
    cnt = [start]
    def walk(t):
        if t is None:
            return None
        x = [cnt[0], None, None]; cnt[0] += 1
        x[1] = walk(t[1]); x[2] = walk(t[2])
        return x
    return walk(tree), cnt[0]


def observer_history(rng, shape):
    n = size(shape)
    tree, _ = label(shape, rng.shuffle(list(range(n))) if rng.chance(1, 3) else None)
    h = [tree_line(tree, n, pick_align(rng, n, rng.choice([None, None, 2, 'mixed']))), 'image']
    blocks = [['viz', 'image'], ['dot ok', 'image'], ['dot fail 0', 'image'], [f'dot fail {rng.range(1, 40 + 60 * n)}', 'image'],
              ['trav in', 'image'], ['trav pre', 'image'], ['trav post', 'image']]
    if n:
        blocks.append([f'leaf {rng.below(n)}', 'image'])
        o = rng.choice(ORDERS)
        blocks.append([f'iter {o} {rng.range(1, n)}', 'complete', 'image'])
    for b in rng.shuffle(blocks):
        h += b
    o = rng.choice(ORDERS)
    h += [f'iter {o}', 'image', 'free', 'image']
    return h


def nested_history(rng, shape, first_owner=None):
    """some nodes of the main tree own a secondary tree of 1…3 nodes, a node of a secondary tree may own a third one:
    the deallocator re-enters bintree_free (two levels deep)"""
    main, n = label(shape)
    trees, pairs = [main], []
    def ids_of(t):
        return [x for x, _ in _pre(t)]
    owners = [first_owner] if first_owner is not None else []
    owners += [x for x in rng.shuffle(ids_of(main)) if x not in owners][:rng.range(0, 2)]
    level2 = []
    for o in owners:
        sub, n2 = relabel_from(label(random_shape(rng, rng.range(1, 3)))[0], n)
        trees.append(sub); pairs.append((o, n)); level2.append(sub); n = n2
    for sub in level2:
        if rng.chance(1, 2):
            o = rng.choice(ids_of(sub))
            sub2, n2 = relabel_from(label(random_shape(rng, rng.range(1, 3)))[0], n)
            trees.append(sub2); pairs.append((o, n)); n = n2
    h = [forest_line(trees, n, pick_align(rng, n, rng.choice([None, None, 2, 'mixed']))),
         ' '.join(['owns'] + [f'{a} {b}' for a, b in pairs])]
    h += rng.choice([['iter post', 'image'], ['iter in', 'image'], []])
    if rng.chance(1, 3) and main is not None:
        h += [rng.choice(['freel', 'freer']) + f' {rng.choice(ids_of(main))}', 'image']
    h += ['free', 'image']
    return h


def _pre(t):
    out, stack = [], [t]
    while stack:
        x = stack.pop()
        if x is None:
            continue
        out.append((x[0], None)); stack.append(x[2]); stack.append(x[1])
    return out


# ---- maximally unbalanced trees on a small stack (C side only: the oracle is the Python specification)
SMALL_STACK_KIB = 128
DEEP_KINDS = ('left-chain', 'right-chain', 'zigzag-chain')


def deep_history(kind, n, ops):
    links = []
    for i in range(n):
        c = str(i + 1) if i + 1 < n else '-'
        if kind == 'left-chain':
            links += [c, '-']
        elif kind == 'right-chain':
            links += ['-', c]
        else:
            links += [c, '-'] if i % 2 == 0 else ['-', c]
    return [' '.join(['tree', str(n), '0' if n else '-'] + links)] + list(ops)


DEEP_OPS_ALL = ['iter in', 'image', 'iter pre', 'image', 'iter post', 'image', 'free', 'image']
DEEP_OPS_LINEAR = ['iter in', 'iter pre', 'image']


def Spec_first_postorder(shape):
    """pre-order id of the first node in post-order (leftmost-deepest leaf) of a shape"""
    t, _ = label(shape)
    while True:
        if t[1] is not None:
            t = t[1]
        elif t[2] is not None:
            t = t[2]
        else:
            return t[0]


def Spec_for(h):
    s = Spec()
    for l in h[:2]:
        s.step(l)
    return s


def gen(ctx, rng):
    """returns (histories, coverage-notes)"""
    quick = ctx.tier == 'quick'
    hs, tags = [], []
    maxn = 7 if quick else 9
    for n in range(maxn + 1):
        for s in shapes(n):
            hs.append(history(rng, s, 'exhaustive')); tags.append('exhaustive')
    ctx.cov['exhaustive_shapes_up_to_nodes'] = maxn
    ctx.cov['exhaustive_shape_count'] = len(hs)
    # the same shapes with the nodes off the 8-byte grid: every node at address 2 mod 8, and a per-node mix of
    # 0/2/4/6 mod 8 (every shape); every node at 4 and at 6 mod 8 (shapes up to 5 nodes)
    for n in range(1, maxn + 1):
        for s in shapes(n):
            for a in (2, 'mixed') + ((4, 6) if n <= 5 else ()):
                hs.append(history(rng, s, 'aligned', a)); tags.append(f'exhaustive-align-{a}')
    # degenerate shapes
    big = [200] if quick else [150, 199, 200]
    sizes = [1, 2, 3, 4, 5, 8, 13, 31, 64] + [rng.range(65, 100 if quick else 120)] + ([] if quick else [127, 128])
    degenerate = []
    for n in sizes:
        degenerate += [('left-spine', left_spine(n)), ('right-spine', right_spine(n)), ('zigzag', zigzag(n, 0)), ('zagzig', zigzag(n, 1)), ('complete', complete(n))]
    for n in big:
        kinds = [('left-spine', left_spine), ('right-spine', right_spine), ('zigzag', zigzag), ('complete', complete)]
        if quick:   # one deep 160-node shape per run (seed-chosen) + the complete 200-node tree: the post-order walk is quadratic and the
            # model's closure heap makes it cubic; the thorough tier runs all of them at 150/199/200, the small-stack campaign goes to 20000
            k0, f0 = kinds[rng.below(3)]
            degenerate += [(k0, f0(160)), (kinds[3][0], kinds[3][1](n))]
            continue
        degenerate += [(k, f(n)) for k, f in kinds]
    for k, s in degenerate:
        hs.append(history(rng, s, 'plain', 'any')); tags.append(k)
    # random shapes
    for _ in range(40 if quick else 400):
        n = rng.choice([rng.range(8, 20), rng.range(8, 20), rng.range(20, 60), rng.range(60, 200)])
        hs.append(history(rng, random_shape(rng, n), rng.choice(['plain', 'plain', 'exhaustive', 'free-first']), 'any')); tags.append('random')
    # the observers of bintree.h (visualize, graphviz into a healthy stream / a stream failing at once / after k bytes,
    # recursive traversals, is_leaf, iterate_complete): each followed by the link image, then a normal iteration and free
    for n in range(0, (6 if quick else 8) + 1):
        for s in shapes(n):
            hs.append(observer_history(rng, s)); tags.append('observers')
    for s in [left_spine(40), right_spine(40), zigzag(40), complete(63)] + [random_shape(rng, rng.range(8, 80)) for _ in range(6 if quick else 60)]:
        hs.append(observer_history(rng, s)); tags.append('observers')
    # re-entrant deallocator: every shape up to 5 nodes with the FIRST post-order node owning a tree (the outer walk
    # has everything still to do when the nested bintree_free runs), and with random owners
    for n in range(1, 6):
        for s in shapes(n):
            first = Spec_first_postorder(s)
            hs.append(nested_history(rng, s, first)); tags.append('nested-free')
            hs.append(nested_history(rng, s, None)); tags.append('nested-free')
    for _ in range(10 if quick else 150):
        hs.append(nested_history(rng, random_shape(rng, rng.range(6, 30)), None)); tags.append('nested-free')
    # one iterator object re-used for several iterations (list spines and ordinary shapes)
    for m in list(range(1, 7)) + [rng.range(7, 30)]:
        for leaning in ('left', 'right'):
            hs.append(reuse_history(rng, m=m, leaning=leaning)); tags.append('iterator-reuse')
    for n in range(1, 6):
        for sh in shapes(n):
            hs.append(reuse_history(rng, shape=sh)); tags.append('iterator-reuse')
    for _ in range(10 if quick else 200):
        hs.append(reuse_history(rng, shape=random_shape(rng, rng.range(6, 40)))); tags.append('iterator-reuse')
    # list spines
    for m in list(range(0, 9)) + [rng.range(9, 40), rng.range(40, 90)]:
        for leaning in ('left', 'right'):
            for bushy in (False, True):
                hs.append(list_history(rng, m, leaning, bushy)); tags.append('list-' + leaning)
    return hs, tags


# --------------------------------------------------------------------------- running and comparing
def harness(ctx):
    R = vlib.REPO
    exe, log = ctx.cc('h_bintree', [os.path.join(vlib.VERIF, 'harness/h_bintree.c'), R + '/librfn/util.c', R + '/librfn/string.c', R + '/librfn/posix/time_posix.c'],
                      ['-I' + R + '/librfn', '-pthread'])
    if not exe:
        raise vlib.Unbuildable('bintree harness does not compile against the repo: ' + log[-1500:])
    return exe


def batch_text(hs):
    return ''.join('reset\n' + '\n'.join(h) + '\n--\n' for h in hs)


def run_impl(exe, hs, timeout=30, stack=None):
    cmd = [exe] + (['--stack', str(stack)] if stack else [])
    return [x[1:] for x in vlib.split_histories(vlib.run_exe(cmd, batch_text(hs), timeout))]


def run_both(ctx, exe, hs, timeout=30):
    import threading
    box = {}
    th = threading.Thread(target=lambda: box.update(impl=run_impl(exe, hs, timeout)))     # the C side runs while the model does
    th.start()
    try:
        mo = ctx.run_model(['bintree'], batch_text(hs), 600).split('\n')
    finally:
        th.join()
    impl = box['impl']
    if mo and mo[-1] == '':
        mo.pop()
    return impl, [x[1:] for x in vlib.split_histories(mo)]


def fails_spec(ctx, exe, h):
    """does the implementation contradict the specification on history h (run alone)?  A hang is a failure."""
    return not matches(run_impl(exe, [h], timeout=5)[0], spec(h))


# ---- shrinking: first the op list, then the tree (prune sub-trees, splice out single nodes), renumbering ids
def parse_tree(line):
    w = line.split()
    n = int(w[1])
    g = lambda x: None if x == '-' else int(x)
    l = [g(w[3 + 2 * i]) for i in range(n)]; r = [g(w[4 + 2 * i]) for i in range(n)]
    def mk(i):
        return None if i is None else [i, mk(l[i]), mk(r[i])]
    return mk(g(w[2]))


def renumber(tree, ops, offs=None):
    """relabel the nodes 0…n-1 in pre-order and rewrite the ops (each node keeps its byte offset); ops naming a
    removed node are dropped"""
    m = {}
    def walk(t):
        if t is None:
            return None
        m[t[0]] = len(m)
        x = [m[t[0]], None, None]
        x[1] = walk(t[1]); x[2] = walk(t[2])
        return x
    t2 = walk(tree)
    noffs = None
    if offs:
        noffs = [0] * len(m)
        for old, new in m.items():
            noffs[new] = offs[old]
    out = [tree_line(t2, len(m), noffs)]
    for line in ops:
        w = line.split()
        if w[0] == 'lists':
            out.append(' '.join(['lists'] + [str(m[int(x)]) for x in w[1:] if int(x) in m]))
        elif w[0] in ('freel', 'freer'):
            if int(w[1]) in m:
                out.append(f'{w[0]} {m[int(w[1])]}')
        else:
            out.append(line)
    return out


def tree_candidates(tree):
    """smaller trees: a sub-tree removed, or a node replaced by one of its children"""
    paths = []
    def walk(t, path):
        if t is None:
            return
        paths.append(path)
        walk(t[1], path + [1]); walk(t[2], path + [2])
    walk(tree, [])
    def replace(t, path, f):
        if not path:
            return f(t)
        c = list(t)
        c[path[0]] = replace(t[path[0]], path[1:], f)
        return c
    paths.sort(key=len)     # big cuts first
    for p in paths:
        yield replace(tree, p, lambda t: None)
    for p in paths:
        yield replace(tree, p, lambda t: t[1] if t[2] is None else t[2] if t[1] is None else t)
        yield replace(tree, p, lambda t: t[1])
        yield replace(tree, p, lambda t: t[2])


def shrink(ctx, exe, h, budget=250, seconds=60):
    t_end = time.time() + seconds      # a hanging mutant costs one timeout per candidate: bound the shrink by wall clock too
    fails = lambda c: time.time() < t_end and valid(c) and fails_spec(ctx, exe, c)
    ops = vlib.ddmin(h[1:], lambda c: fails([h[0]] + c), max_tests=60) if len(h) > 2 else h[1:]
    if not fails([h[0]] + ops):
        ops = h[1:]
    cur = [h[0]] + ops
    tree = parse_tree(h[0])
    progress = not any(l.startswith('owns') for l in cur)     # a forest is not pruned (its trees are small anyway)
    while progress and budget > 0:
        progress = False
        for cand in tree_candidates(tree):
            if paren(cand) == paren(tree):
                continue
            budget -= 1
            if budget <= 0:
                break
            c = renumber(cand, cur[1:], align_of(cur[0]))
            if fails(c):
                cur, tree, progress = c, parse_tree(c[0]), True
                break
    ops = vlib.ddmin(cur[1:], lambda c: fails([cur[0]] + c), max_tests=40) if len(cur) > 2 else cur[1:]
    if fails([cur[0]] + ops):
        cur = [cur[0]] + ops
    # fewer ownership pairs (an unowned secondary tree simply stays in the forest, untouched)
    for i, line in enumerate(cur):
        if line.startswith('owns'):
            w = line.split()[1:]
            pairs = list(zip(w[0::2], w[1::2]))
            j = 0
            while j < len(pairs) and len(pairs) > 1:
                cand = pairs[:j] + pairs[j + 1:]
                c = cur[:i] + [' '.join(['owns'] + [f'{a} {b}' for a, b in cand])] + cur[i + 1:]
                if fails(c):
                    cur, pairs = c, cand
                else:
                    j += 1
    # simpler placement: all nodes on the 8-byte grid, else all at one offset, else as found
    offs = align_of(cur[0])
    if any(offs):
        base = cur[0][:cur[0].index(' align')]
        for cand in [base] + [f'{base} align {k}' for k in OFFSETS[1:]]:
            if fails([cand] + cur[1:]):
                cur = [cand] + cur[1:]
                break
    return cur if fails_spec(ctx, exe, cur) else h


def report(ctx, exe, h):
    hh = shrink(ctx, exe, h)
    impl, model = run_both(ctx, exe, [hh], timeout=10)
    a, b, exp = impl[0], model[0], spec(hh)
    k = next((i for i in range(max(len(a), len(exp))) if i >= len(a) or i >= len(exp) or (exp[i] is not None and a[i] != exp[i])), None)
    lo = max(0, (k or 0) - 1)
    ctx.violation({'obligation': 'bintree: implementation vs specification (recursive traversals, original links, post-order deallocation)',
                   'ops': ['reset'] + hh, 'shape': paren(parse_tree(hh[0])), 'nodes': int(hh[0].split()[1]),
                   'node_address_offsets_mod_16': align_of(hh[0]) or 'all 0 (malloc alignment)',
                   'failing_op': hh[k] if k is not None and k < len(hh) else None, 'first_difference_at_output': k,
                   'expected': exp[lo:(k or 0) + 2], 'observed': a[lo:(k or 0) + 2], 'model': b[lo:(k or 0) + 2],
                   'engine': 'bintree', 'how_to_rerun': f'./check {ctx.pid} --replay <this file>'},
                  key='shape:' + paren(parse_tree(hh[0])) + ':' + ''.join(map(str, align_of(hh[0]))) + ':' + hashlib.sha1('\n'.join(hh[1:]).encode()).hexdigest()[:12])


def compare(ctx, exe, hs, label):
    """returns the number of histories on which implementation, model and specification agree; reports the first
    violation (implementation != specification) or broken correspondence (model != implementation = specification)"""
    if not hs:
        return 0
    impl, model = run_both(ctx, exe, hs)
    agreed = 0
    for i, h in enumerate(hs):
        io = impl[i] if i < len(impl) else None
        mo = model[i] if i < len(model) else ['!! missing']
        so = spec(h)
        if io is None:     # the harness died in an earlier history: run this one alone
            one, onem = run_both(ctx, exe, [h], timeout=10)
            io, mo = one[0], onem[0]
        bad_spec = not matches(io, so)
        bad_model = not model_agrees(io, mo)
        if not bad_spec and not bad_model:
            agreed += 1
            continue
        if bad_spec:
            report(ctx, exe, h)
            return agreed
        d = vlib.diff_streams(io, mo)
        ctx.broken.append(f'correspondence bintree ({label}): model differs from implementation (implementation agrees with the specification) on '
                          f'{h[0][:80]} at op {h[d] if d is not None and d < len(h) else d}: model={mo[d:d + 1] if d is not None else None} impl={io[d:d + 1] if d is not None else None}')
        return agreed
    return agreed


def deeper_search(ctx, exe, rng):
    """a proof obligation or the model/implementation tie broke and no failing input is known yet: a bigger campaign
    of the implementation against the specification alone (the model is not consulted)"""
    class T:      # thorough-size generation whatever the tier
        tier = 'thorough'; cov = {}
    hs, _ = gen(T, rng)
    ctx.cov['deeper_search_histories'] = len(hs)
    B = 400
    for i in range(0, len(hs), B):
        chunk = hs[i:i + B]
        impl = run_impl(exe, chunk)
        for j, h in enumerate(chunk):
            io = impl[j] if j < len(impl) else run_impl(exe, [h], timeout=10)[0]
            if not matches(io, spec(h)):
                report(ctx, exe, h)
                return


def deep_campaign(ctx, exe, rng):
    """left chains, right chains and zig-zags far deeper than the small stack could hold if stack use grew with depth:
    all iterators and bintree_free run in a thread with a SMALL_STACK_KIB stack; implementation vs specification only
    (never through the Lean model; the harness's recursive reference traversals are not used)"""
    quick = ctx.tier == 'quick'
    n_all = 6000 if quick else 12000
    n_lin = 20000 if quick else 100000
    cases = [(k, n_all, DEEP_OPS_ALL) for k in DEEP_KINDS]
    cases += [(k, n_lin, DEEP_OPS_LINEAR) for k in ([rng.choice(DEEP_KINDS)] if quick else DEEP_KINDS)]
    ok = 0
    for kind, n, ops in cases:
        h = deep_history(kind, n, ops)
        ctx.count(('deep', kind, n, tuple(ops)))
        fails = lambda hh: not matches(run_impl(exe, [hh], timeout=120, stack=SMALL_STACK_KIB)[0], spec(hh))
        if not fails(h):
            ok += 1
            continue
        # smallest chain of this kind on which it still fails, then the fewest ops
        lo, hi = 1, n
        while lo < hi:
            mid = (lo + hi) // 2
            if fails(deep_history(kind, mid, ops)):
                hi = mid
            else:
                lo = mid + 1
        ops2 = vlib.ddmin(list(ops), lambda c: fails(deep_history(kind, hi, c)), max_tests=30)
        hh = deep_history(kind, hi, ops2 if fails(deep_history(kind, hi, ops2)) else ops)
        if not fails(hh):
            hh = h
        a = run_impl(exe, [hh], timeout=120, stack=SMALL_STACK_KIB)[0]
        exp = spec(hh)
        k = next((i for i in range(max(len(a), len(exp))) if i >= len(a) or i >= len(exp) or (exp[i] is not None and a[i] != exp[i])), None)
        short = lambda xs: [x if len(x) < 160 else x[:150] + ' …' for x in xs]
        ctx.violation({'obligation': 'bintree on a maximally unbalanced tree with a small stack: implementation vs specification (the iterators and bintree_free are constant-space)',
                       'ops': ['reset'] + hh, 'shape': f'{kind} of {hh[0].split()[1]} nodes', 'nodes': int(hh[0].split()[1]), 'stack_kib': SMALL_STACK_KIB,
                       'failing_op': hh[k] if k is not None and k < len(hh) else None, 'first_difference_at_output': k,
                       'expected': short(exp[max(0, (k or 0) - 1):(k or 0) + 1]), 'observed': short(a[max(0, (k or 0) - 1):(k or 0) + 2]),
                       'how_to_rerun': f'./check {ctx.pid} --replay <this file>'},
                      key=f'deep:{kind}:{"+".join(hh[1:])}')
        break
    ctx.cov['small_stack_kib'] = SMALL_STACK_KIB
    ctx.cov['deep_chain_cases'] = [f'{k} x{n}: {" ".join(o)}' for k, n, o in cases]
    return ok


def run_corpus(ctx, exe):
    d = os.path.join(vlib.VERIF, 'corpus', ctx.pid)
    hs = []
    if os.path.isdir(d):
        for fn in sorted(os.listdir(d)):
            if fn.endswith('.json'):
                ops = json.load(open(os.path.join(d, fn)))['ops']
                hs.append([l for l in ops if l != 'reset'])
    ctx.cov['corpus_histories'] = len(hs)
    return compare(ctx, exe, hs, 'corpus') if hs else 0


def run(ctx):
    rng = vlib.Rng(ctx.seed)
    ctx.prove(['Librfn.Props.C11'], REQUIRED)
    exe = harness(ctx)
    if not ctx.build_model():
        return
    agreed = run_corpus(ctx, exe)
    hs, tags = gen(ctx, rng)
    for h in hs:
        assert valid(h), h
    if not ctx.violations:
        # batches: a crash of the harness only costs the rest of its batch
        B = 400
        for i in range(0, len(hs), B):
            agreed += compare(ctx, exe, hs[i:i + B], 'generated')
            if ctx.violations or ctx.broken:
                break
    if not ctx.violations:
        ctx.cov['deep_chain_cases_agreeing_with_spec'] = deep_campaign(ctx, exe, rng)
    if ctx.broken and not ctx.violations:
        deeper_search(ctx, exe, vlib.Rng(ctx.seed + 7919))
    hist, offhist = {}, {}
    for h, t in zip(hs, tags):
        hist[t] = hist.get(t, 0) + 1
        ctx.count((paren(parse_tree(h[0])) if int(h[0].split()[1]) <= 60 else h[0], tuple(align_of(h[0])), tuple(h[1:])), nontrivial=int(h[0].split()[1]) >= 2)
        for o in set(align_of(h[0]) or [0]):
            offhist[o] = offhist.get(o, 0) + 1
    ctx.cov['traces_validated_against_impl'] = agreed
    ctx.cov['histories_by_kind'] = hist
    ctx.cov['histories_with_a_node_at_address_mod_8'] = {str(k): offhist[k] for k in sorted(offhist)}
    ctx.cov['ops_total'] = sum(len(h) for h in hs)
    ctx.cov['largest_tree_nodes'] = max(int(h[0].split()[1]) for h in hs)
    ctx.cov['exhaustive'] = False
    for i in (5, len(hs) // 2, len(hs) - 1):
        h = hs[i]
        ctx.sample({'kind': tags[i], 'tree': h[0][:120], 'ops': h[1:10], 'length': len(h)})
    ctx.cov['rule'] = (f'every binary tree shape with 0…{ctx.cov["exhaustive_shapes_up_to_nodes"]} nodes (enumerated, {ctx.cov["exhaustive_shape_count"]} shapes), degenerate shapes (left/right spines, zig-zags, complete trees) up to 200 nodes, '
                       'seeded random shapes up to 200 nodes, left- and right-leaning list spines (0…90 list nodes, elements with and without sub-trees); per shape: recursive traversal, iterator to completion, '
                       'link image, iterator cut after k calls + image + resume, bintree_free_left/right of a random node, bintree_free with a really-freeing logging deallocator under ASan; '
                       'the observers bintree_visualize, bintree_graphviz (healthy stream, stream failing at once, stream failing after k bytes), bintree_traverse_*, bintree_is_leaf, bintree_iterate_complete each followed by the link image; '
                       'nodes owning a secondary tree (1-3 nodes, two levels deep) that the deallocator frees with a nested bintree_free; '
                       '6000/20000-node left/right/zig-zag chains in all orders + free on a 128 KiB thread stack (C vs specification only); '
                       'node ids permuted in a third of the cases; node addresses at 0, 2, 4, 6 mod 8 (every small shape with all nodes at 2 mod 8 and with a per-node mix; shapes <= 5 nodes also all at 4 and at 6; '
                       'larger shapes at random). distinct = distinct (shape, placement, op list); non-trivial = at least 2 nodes')
    ctx.assumptions.append(META['level_note'])


def replay(ctx, path):
    r = json.load(open(path))
    if 'ops' not in r:
        print('replay names a broken obligation, not an input:', r.get('obligation'))
        return 1
    exe = harness(ctx)
    if not ctx.build_model():
        return 2
    h = [l for l in r['ops'] if l != 'reset']
    if r.get('stack_kib'):      # a deep-chain case: C side on the small stack against the specification, no model
        a = run_impl(exe, [h], timeout=120, stack=r['stack_kib'])[0]
        exp = spec(h)
        ok = matches(a, exp)
        print('implementation:', [x[:60] for x in a[:12]]); print('expected      :', [(x or '')[:60] for x in exp[:12]])
        print('SAME' if ok else 'DIFFER')
        return 0 if ok else 1
    impl, model = run_both(ctx, exe, [h], timeout=10)
    exp = spec(h)
    shown = [m if e is None else e for e, m in zip(exp, model[0] + [None] * len(exp))]
    print('implementation:', impl[0][:40]); print('expected      :', shown[:40])
    ok = matches(impl[0], exp)
    print('SAME' if ok else 'DIFFER')
    return 0 if ok else 1

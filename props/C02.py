"""C02 — fibre timeouts never fire early, fire in due order, survive 32-bit time wrap, are cancelled by other wake-ups (tie D; refinement proof)."""
from props import sched_common as sc

META = {
    'engine': 'lean-D',
    'technique': 'Lean 4 refinement proof of a hand model of fibre.c (time comparison = the cyclecmp32 generated from util.c) against an abstract specification with true unbounded due times; '
                 'time-shift invariance proved for every offset of the 32-bit ring; model and specification tied to the real code by differential runs',
    'level_text': 'PLACEHOLDER',
    'level_note': 'PLACEHOLDER',
    'design_ref': '§6 C02',
}
REQUIRED = []


def run(ctx):
    sc.run_sched(ctx, META, ['Librfn.Props.C02'], REQUIRED, 'C02')


def replay(ctx, path):
    return sc.replay_sched(ctx, path)

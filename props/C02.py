"""C02 — fibre timeouts never fire early, fire in due order, survive 32-bit time wrap, are cancelled by other wake-ups (tie D; refinement proof)."""
from props import sched_common as sc

META = {
    'engine': 'lean-D',
    'technique': 'Lean 4 refinement proof of a hand model of fibre.c (time comparison = the cyclecmp32 generated from util.c; the timer-queue comparator duetime_cmp regenerated from fibre.c and proved to be the dueGe of the model, Props/C02Tie.lean) against an abstract specification with true unbounded due times; '
                 'time-shift invariance proved for every offset of the 32-bit ring; model and specification tied to the real code by differential runs',
    'level_text': "Proved for the model with the cyclecmp32 generated from util.c: fibre_timeout returns true iff D <= T (half-window lemma); a sleeper is not dispatched by any in-scope pass with T < D and is in the run queue after the first pass with T >= D; handle_timerq moves exactly the sleepers with D <= T in (due time, registration) order (stable sort proved sorted/permutation/stable); running, killing or re-queueing a yielding sleeper removes it from the timer queue and from the specification's sleepers; and time_shift_invariance: for EVERY history and every offset c : BitVec 32 the shifted history behaves identically (wake-up times shifted by c) - every placement of the time base in the ring, incl. both wrap seams, is covered by proof.",
    'level_note': "Trusted: Lean kernel (standard axioms only in the C02 theorems; bv_decide certificates in duetime_cmp_generated of Props/C02Tie.lean); tools/c2lean2.py for duetime_cmp (fibre_t in memory, x86-64 layout); the hand model lean/Librfn/Model/Fibre.lean of fibre.c and the abstract specification are BOTH run against the real fibre.c+list.c+messageq.c+util.c on every check (sampled histories, exhaustive small scope in the thorough tier) - that correspondence is testing, not proof; cyclecmp32 is regenerated from util.c (tie T); list.c is replaced by sequences (its refinement is C09; every insertion is proved to be of a node in no list); the atomic run queue is its list of committed entries, fibre_run_atomic runs to completion (the lock-free protocol is C04/C06); scope = the property's quantifier: <= 1 unsatisfied fibre_timeout per dispatch, non-decreasing true times, every pending due time within 2^31 ticks of the pass time (the 9th outstanding atomic request is refused by model and specification alike, so no clause is needed).",
    'design_ref': '§6 C02',
}
REQUIRED = ['Librfn.C02.cyclecmp_window', 'Librfn.C02.timeout_ret', 'Librfn.C02.no_early_fire', 'Librfn.C02.fires_first_pass', 'Librfn.C02.expiry_order', 'Librfn.C02.expiry_order_is_due_then_registration', 'Librfn.C02.time_shift_invariance', 'Librfn.C02.time_base_irrelevant', 'Librfn.C02.cancel_on_run_kill_yield', 'Librfn.C02.cancelled_sleep_is_gone']


TIE = ['Librfn.C02.Tie.duetime_cmp_generated', 'Librfn.C02.Tie.duetime_cmp_tie', 'Librfn.C02.Tie.fibre_timeout_generated', 'Librfn.C02.Tie.fibre_timeout_generated_mem', 'Librfn.C02.Tie.fibre_timeout_tie']


def run(ctx):
    # tie T2 for the comparator of the timer queue: duetime_cmp is regenerated from fibre.c (fibre_t in memory) and proved to be
    # the model's dueGe; the theorems inherit the bit-vector certificates of the memory lemmas they are built on
    import os, sys
    sys.path.insert(0, os.path.join(os.path.dirname(os.path.abspath(__file__)), '..', 'tools'))
    import regen
    for u, e in regen.regen(['FibreSeq']):
        ctx.broken.append(f'tie T: tools/c2lean2.py cannot translate unit {u}: {e}')
    changed = [f'{u}: {c}' for u in ('FibreSeq',) for c in regen.signature_changes(u, only=['duetime_cmp', 'fibre_timeout'])]
    mods, req = ['Librfn.Props.C02'], list(REQUIRED)
    if changed:
        ctx.broken.append('tie T: the interface of the regenerated duetime_cmp differs from the one Props/C02Tie.lean is stated against (' + '; '.join(changed)[:600] + ')')
    else:
        mods, req = mods + ['Librfn.Props.C02TieCmp', 'Librfn.Props.C02Tie'], req + TIE

    def allow(t, a):
        return t.startswith('Librfn.C02.Tie.') and '._native.bv_decide.ax_' in a and (
            a.startswith('Librfn.C02.Tie.duetime_cmp_generated') or a.startswith('Librfn.C02.Tie.fibre_timeout_generated')
            or a.startswith('Librfn.Sched.L.cyclecmp32_tie.'))
    sc.run_sched(ctx, META, mods, req, 'C02', allow_extra_axioms=allow)
    ctx.cov['tie_T_generated_units'] = {'FibreSeq': ['duetime_cmp', 'fibre_timeout (list functions external, cyclecmp32 inlined)']}


def replay(ctx, path):
    return sc.replay_sched(ctx, path)

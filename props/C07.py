"""C07 — data-race freedom under C11 (tie S static obligations + DRF theorems from the interleaving invariants +
happens-before race detection on traced executions of the real code)."""
import json, os, re
import vlib
import skeleton

META = {
    'engine': 'lean-S',
    'technique': 'Lean 4: decide-checked obligations on the atomic-operation skeleton extracted from the C source (all seq_cst, fields _Atomic, payload inside publish brackets) + '
                 'no-adjacent-conflict theorems from the inductive invariants of the ring and message-queue interleaving models (DRF-SC) + a proved-sound vector-clock happens-before detector run on traced executions',
    'level_text': 'Program-text level proof: (a) every atomic operation in ringbuf.c, messageq.c/.h and the wake-up path of fibre.c is seq_cst, every shared index/flag/counter is _Atomic and only atomically accessed, '
                  'payload accesses lie inside the claim..send / receive..release / load..store brackets (decide on the table regenerated from the source each run); (b) in every reachable state of the interleaving models '
                  '(all interleavings, all sizes, any number of senders) no two threads are at conflicting plain accesses of the same cell. By DRF-SC (trusted) the code is race free and C04-C06 carry over to weak memory. '
                  'Additionally every run traces real executions (compiler-instrumented: every atomic with the memory order actually given, every plain access to the shared objects) under controlled interleavings and '
                  'evaluates happens-before with the Lean vector-clock detector: no conflicting plain accesses unordered by hb.',
    'level_note': 'Trusted: Lean kernel; the DRF-SC theorem of C11; tools/skeleton.py + clang AST; gcc\'s -fsanitize=thread instrumentation pass as the access tracer (no TSan run-time is linked: harness/h_race.c supplies the callbacks); '
                  'the detector treats consume as acquire and ignores fences (the code has only atomic_signal_fence). The thorough tier also runs free-running real threads under the real ThreadSanitizer as a supporting cross-check (a different technique: it decides nothing). Nothing is claimed about how a compiler/CPU implements seq_cst. '
                  'A weakened memory order cannot be made to misbehave on this x86 host; it is reported through the broken static obligation and, when a traced execution shows it, as a concrete hb race.',
    'design_ref': '§6 C07, §11',
}
REQUIRED = ['Librfn.C07.isr_side_never_touches_receiver_state', 'Librfn.C07.races_sound', 'Librfn.C07.races_complete', 'Librfn.C07.raceFree_iff', 'Librfn.C07.skeleton_matches_fibre', 'Librfn.C07.all_units_seqcst', 'Librfn.C07.shared_fields_atomic', 'Librfn.C07.receivep_single_owner',
            'Librfn.C07.isr_entry_touches_only_the_queue', 'Librfn.C07.fibre_payload_inside_publish', 'Librfn.C07.ring_sc_race_free',
            'Librfn.C07.ring_sc_race_free_all', 'Librfn.C07.mq_sc_race_free']
HB_MODULE = 'Librfn.Props.C07HB'


def build_tracer(ctx, fallback=False):
    """fallback=True: the library's own pre-C11 configuration (-D__STDC_NO_ATOMICS__, include/librfn/atomic.h).
    The tracer names individual fields of the library's structures (cosmetic: locations print as `mq.receivep` instead of
    `mq+13`); when that no longer compiles (a field was renamed, removed, or became a bit-field) it is rebuilt without
    the field names - the accesses are traced and judged exactly as before."""
    try:
        return build_tracer1(ctx, fallback, [])
    except vlib.Unbuildable as e:
        exe = build_tracer1(ctx, fallback, ['-DVERIF_BLACKBOX'])
        msg = 'race tracer rebuilt without field names (the structures changed): ' + ' '.join(str(e).split())[-300:]
        if msg not in ctx.notes:
            ctx.notes.append(msg)
        ctx.cov['harness_public_interface_only'] = msg
        return exe


def build_tracer1(ctx, fallback, bb):
    R, H = vlib.REPO, os.path.join(vlib.VERIF, 'harness')
    objs = []
    cfg = (['-D__STDC_NO_ATOMICS__'] if fallback else []) + bb
    tag = 'fb' if fallback else ''
    for name, src, extra in (('ringbuf', R + '/librfn/ringbuf.c', []), ('messageq', R + '/librfn/messageq.c', []), ('list', R + '/librfn/list.c', []),
                             ('fibre', H + '/h_race_fibre.c', ['-I' + R + '/librfn'])):
        o = os.path.join(ctx.tmp, f'tsan{tag}_{name}.o')
        rc, out, err = vlib.sh(['gcc', '-c', os.environ.get('VERIF_OPT', '-O0'), '-g', '-fsanitize=thread', '-I' + R + '/include'] + cfg + extra + [src, '-o', o], timeout=300)
        if rc != 0:
            raise vlib.Unbuildable(f'cannot compile {src} with access tracing: ' + (out + err)[-800:])
        objs.append(o)
    exe, log = ctx.cc('h_race' + tag, [H + '/h_race.c'] + objs + [R + '/librfn/util.c', R + '/librfn/posix/time_posix.c'], ['-lpthread'] + cfg, san=False)
    if not exe:
        raise vlib.Unbuildable('race tracer does not link: ' + log[-1500:])
    return exe


def gen(rng, kind):
    if kind == 'ring':
        L = rng.choice([2, 2, 3, 3, 4, 5, 16])
        n = rng.range(1, 2 * L + 3)
        cfg = f'ring {L} {rng.below(L)} {n} {rng.range(1, n + 2)}'
        nt, steps = 2, rng.range(6, 14 * n)
    elif kind == 'mq':
        d = rng.choice([1, 1, 2, 2, 3, 4])
        ns = rng.range(1, 3)
        msgs = rng.range(1, 2 * d + 2)
        cfg = f'mq {d} {rng.choice([1, 4])} {ns} {msgs} {rng.range(1, ns * msgs + 3)}'
        nt, steps = ns + 1, rng.range(6, 16 * ns * msgs)
    elif kind == 'evq':
        nisr = rng.range(1, 3)
        calls = rng.range(2, 9)
        cfg = f'evq {nisr} {calls} {rng.range(3, 14)}'
        nt, steps = nisr + 1, rng.range(10, 60 * nisr * calls // 2 + 20)
    else:
        nisr = rng.range(1, 3)
        calls = rng.range(3, 12) if nisr > 1 else rng.range(9, 20)      # >= 9 requests in total so that run-queue slots are re-used
        cfg = f'fibre {nisr} {calls} {rng.range(4, 16)}'
        nt, steps = nisr + 1, rng.range(10, 40 * nisr * calls // 2 + 20)
    toks, t = [], 0
    for _ in range(steps):
        if not rng.chance(2, 3):
            t = rng.below(nt)
        toks.append(str(t))
    return {'cfg': cfg, 'sched': toks}


def to_events(lines):
    """E/P log lines -> (ev lines for the Lean detector, readable event list, dynamic memory orders)"""
    locs, evs, readable, orders = {}, [], [], {}
    for l in lines:
        w = l.split()
        if len(w) == 5 and w[0] == 'E':
            loc = locs.setdefault('A:' + w[3], len(locs))
            evs.append(f'ev {w[1]} {w[2]} {loc} {w[4]}'); readable.append(l)
            orders[w[4]] = orders.get(w[4], 0) + 1
        elif len(w) == 5 and w[0] == 'P':
            loc = locs.setdefault('P:' + w[3], len(locs))
            evs.append(f'ev {w[1]} {"pread" if w[2] == "r" else "pwrite"} {loc} na'); readable.append(l)
    return evs, readable, orders


def analyse(ctx, exe, scs, timeout=600):
    text = ''.join(f'reset\n{s["cfg"]}\nrun {" ".join(s["sched"])}\n--\n' for s in scs)
    outs = vlib.split_histories(vlib.run_exe([exe], text, timeout))
    mtext, info = '', []
    for i, s in enumerate(scs):
        o = outs[i] if i < len(outs) else ['!! missing']
        evs, readable, orders = to_events(o)
        crashed = [l for l in o if l.startswith('!!') or l == 'stuck']
        info.append((readable, orders, crashed))
        mtext += '\n'.join(evs) + '\n--\n'
    res = [r for r in ctx.run_model(['hb'], mtext, timeout).split('\n') if r.startswith('races')]
    return info, res


def tsan_soak(ctx):
    """supporting evidence only (thorough tier): free-running real threads under the real ThreadSanitizer run-time"""
    R = vlib.REPO
    exe = os.path.join(ctx.tmp, 'h_tsan_soak')
    rc, out, err = vlib.sh(['gcc', '-O1', '-g', '-fsanitize=thread', '-I' + R + '/include', os.path.join(vlib.VERIF, 'harness/h_tsan_soak.c')] +
                           [R + '/librfn/' + f for f in ('ringbuf.c', 'messageq.c', 'fibre.c', 'list.c', 'util.c', 'posix/time_posix.c')] + ['-o', exe, '-lpthread'], timeout=300)
    if rc != 0:
        ctx.notes.append('ThreadSanitizer soak not built (supporting evidence only): ' + (out + err)[-300:]); return
    res = {}
    for mode, n in (('ring', 3000000), ('mq', 400000), ('fibre', 300000)):
        rc, out, err = vlib.sh([exe, mode, str(n)], timeout=900, env={'TSAN_OPTIONS': 'halt_on_error=1 exitcode=66'})
        res[mode] = 'clean' if rc == 0 and out.startswith('OK') else f'rc={rc}'
        if rc == 66 or 'WARNING: ThreadSanitizer' in err:
            ctx.violation({'obligation': 'real threads under ThreadSanitizer (supporting cross-check of the happens-before analysis)', 'mode': mode, 'iterations': n,
                           'report': err[-3000:], 'how_to_rerun': f'h_tsan_soak {mode} {n} (non-deterministic schedule)'}, key='tsan:' + mode)
            break
        if rc != 0:
            ctx.broken.append(f'ThreadSanitizer soak {mode}: functional failure or crash rc={rc}: {err[-300:]}')
    ctx.cov['threadsanitizer_real_thread_soak'] = res


def has_cross_thread_conflict(readable):
    """does the trace contain two plain accesses to one location by different threads, at least one a write?
    (only such traces say anything: a trace without them is trivially race free)"""
    seen = {}
    for l in readable:
        w = l.split()
        if w[0] == 'P':
            seen.setdefault(w[3], set()).add((w[1], w[2]))
    for loc, acc in seen.items():
        tids = {t for t, _ in acc}
        if len(tids) > 1 and any(rw == 'w' for _, rw in acc):
            return True
    return False


def campaign(ctx, exe, scs, label, tot_orders, stats):
    info, res = analyse(ctx, exe, scs)
    for i, s in enumerate(scs):
        readable, orders, crashed = info[i]
        stats['events'] += len(readable)
        for k, v in orders.items():
            tot_orders[k] = tot_orders.get(k, 0) + v
        conflicting = has_cross_thread_conflict(readable)
        stats.setdefault('with_conflicting_plain_pair', {}).setdefault(s['cfg'].split()[0], 0)
        if conflicting:
            stats['with_conflicting_plain_pair'][s['cfg'].split()[0]] += 1
        ctx.count((label, s['cfg'], tuple(s['sched'])), nontrivial=conflicting)
        if crashed:
            ctx.notes.append(f'tracer: {crashed[0]} on {s["cfg"]}')
            if not any(b.startswith('race tracer') for b in ctx.broken):
                ctx.broken.append(f'race tracer ({label}): scenario did not complete ({crashed[0]}) cfg="{s["cfg"]}"')
            continue
        r = res[i] if i < len(res) else 'races ?'
        m = re.match(r'races (\d+)(.*)', r)
        if not m:
            ctx.broken.append('happens-before detector produced no verdict: ' + r); break
        if int(m.group(1)) == 0:
            stats['clean'] += 1
            continue
        a, b = [int(x) for x in m.group(2).split()[0].split('-')]
        # shrink the schedule while a race remains
        def fails(toks):
            inf, rr = analyse(ctx, exe, [dict(s, sched=toks)], 120)
            return bool(rr) and not rr[0].startswith('races 0') and not inf[0][2]
        small = vlib.ddmin(s['sched'], fails, max_tests=120)
        inf, rr = analyse(ctx, exe, [dict(s, sched=small)], 120)
        if rr and not rr[0].startswith('races 0'):
            a, b = [int(x) for x in rr[0].split()[2].split('-')]
            readable = inf[0][0]
        else:
            small = s['sched']
        ctx.violation({'obligation': 'happens-before: two conflicting plain accesses by different threads are not ordered through the atomic operations executed between them',
                       'build': label, 'scenario': s['cfg'], 'schedule': small, 'first_access': readable[a], 'second_access': readable[b],
                       'events_between': readable[a:b + 1][:80], 'detector_output': rr[0] if rr else r,
                       'note': 'E <thread> <kind> <object> <memory order as executed> / P <thread> <r|w> <object+offset> <size>; cannot be made to misbehave on x86, the trace is the witness',
                       'how_to_rerun': f'./check {ctx.pid} --replay <this file>'},
                      key='race:' + re.sub(r'[^\w.+]', '_', readable[a].split()[3]) + ':' + s['cfg'].split()[0])
        break


def run(ctx):
    rng = vlib.Rng(ctx.seed)
    for unit, err in skeleton.regen_skeleton(['ringbuf', 'messageq', 'fibre']):
        ctx.broken.append(f'tie S: atomic-operation skeleton of {unit} could not be extracted from the source: {err}')
    mods = ['Librfn.Props.C07']
    if os.path.exists(os.path.join(vlib.LEAN, HB_MODULE.replace('.', '/') + '.lean')):
        mods.append(HB_MODULE)
    ctx.prove(mods, REQUIRED)
    if not ctx.build_model():
        return
    n = (60, 60, 40, 40) if ctx.tier == 'quick' else (1500, 1500, 800, 800)
    if ctx.broken:
        n = tuple(4 * x for x in n)           # static obligations broke: search harder for a traced race
    scs = [gen(rng, 'ring') for _ in range(n[0])] + [gen(rng, 'mq') for _ in range(n[1])] + [gen(rng, 'fibre') for _ in range(n[2])] + \
          [gen(rng, 'evq') for _ in range(n[3])]
    tot_orders, stats = {}, {'events': 0, 'clean': 0}
    campaign(ctx, build_tracer(ctx), scs, 'C11 <stdatomic.h> configuration', tot_orders, stats)
    if not ctx.violations:
        # the library's own pre-C11 configuration of include/librfn/atomic.h (-D__STDC_NO_ATOMICS__): same code paths, other macros
        half = scs[::2]
        campaign(ctx, build_tracer(ctx, fallback=True), half, 'fallback configuration -D__STDC_NO_ATOMICS__', tot_orders, stats)
        ctx.cov['fallback_configuration_scenarios'] = len(half)
    nev, clean = stats['events'], stats['clean']
    ctx.cov['scenarios_with_cross_thread_conflicting_plain_accesses'] = stats.get('with_conflicting_plain_pair', {})
    for kind in ('ring', 'mq', 'fibre', 'evq'):          # vacuity guard: each structure must actually hand data from one thread to another
        if not ctx.violations and stats.get('with_conflicting_plain_pair', {}).get(kind, 0) < 5:
            ctx.broken.append(f'traced executions of scenario kind {kind} contain (almost) no cross-thread conflicting plain accesses: the happens-before check would be vacuous')
    if ctx.tier == 'thorough' and not ctx.violations:
        tsan_soak(ctx)
    weak = {k: v for k, v in tot_orders.items() if k != 'seq_cst'}
    if weak and not ctx.violations:
        ctx.broken.append(f'dynamic cross-check: atomic operations executed with memory orders other than seq_cst: {weak} (the static table says all seq_cst)')
    ctx.cov['traces_validated_against_impl'] = clean
    ctx.cov['events_traced'] = nev
    ctx.cov['memory_orders_executed'] = tot_orders
    ctx.cov['scenarios'] = {'ring': n[0], 'mq': n[1], 'fibre': n[2], 'evq': n[3]}
    for s in (scs[0], scs[n[0]], scs[n[0] + n[1]], scs[-1]):
        ctx.sample({'scenario': s['cfg'], 'schedule_prefix': ' '.join(s['sched'][:30])})
    ctx.cov['rule'] = ('scenario = (structure, sizes, per-thread scripts) x random schedule (one segment per token, a thread yields before and after every atomic operation); '
                       'ring: len 2..16 with wrap-around; message queue: depth 1..4, 1..3 senders, slots re-used; fibre: 1..3 interrupt contexts posting >= 9 wake-ups while the main context runs scheduler passes; '
                       'distinct = distinct (scenario, schedule); non-trivial = the trace contains plain accesses to shared objects')
    ctx.assumptions.append(META['level_note'])


def replay(ctx, path):
    r = json.load(open(path))
    if 'scenario' not in r:
        print('replay names a broken obligation, not a trace:', r.get('obligation')); return 1
    if not ctx.build_model():
        return 2
    exe = build_tracer(ctx, fallback='fallback' in r.get('build', ''))
    info, res = analyse(ctx, exe, [{'cfg': r['scenario'], 'sched': r['schedule']}], 120)
    print(res[0] if res else 'no verdict')
    return 0 if res and res[0].startswith('races 0') else 1

"""C19 — rotary encoder (tie T; bv_decide step lemma + kernel induction over all sequences)."""
import json, re
import vlib
from props import pure_common as pc

META = {
    'engine': 'lean-T',
    'technique': 'Lean 4 refinement proof: generated rotenc_decode/rotenc_count/rotenc_count14 (from rotenc.c, rotenc.h) track an unbounded-position spec for every state sequence (bv_decide step lemma + induction)',
    'level_text': 'For every finite sequence of 2-bit states from ROTENC_VAR_INIT (and from every state consistent with a history): internal position = true position mod 2^16 '
                  '(exactly +1/-1/0 per transition, bounce cancels), rotenc_count = floor(latched/4) mod 256, rotenc_count14 = floor(latched/4) mod 2^14 at all times, low 8 bits agree, '
                  'and without two-bit jumps |true - latched| <= 3 quarter steps (< 1 click). Proved about the code as translated from the current source.',
    'level_note': 'Trusted: Lean kernel; one bv_decide certificate axiom (step_delta_components: all 16 from/to pairs x all counts); tools/c2lean.py + clang typed AST validated each run '
                  'against compiled C (sampled; exhaustive 2^28 single-step sweep in thorough tier); states are 2-bit (callers mask); within_one_click needs the no-two-bit-jump hypothesis (mathematically necessary).',
    'design_ref': '§6 C19',
}
REQUIRED = ['Librfn.C19.step_delta', 'Librfn.C19.run_rel', 'Librfn.C19.position_exact', 'Librfn.C19.count_is_latched_clicks',
            'Librfn.C19.count14_is_latched_clicks', 'Librfn.C19.low8_agree', 'Librfn.C19.within_one_click', 'Librfn.C19.bounce_cancels']


def shrink_walk(fast, states):
    def fails(s):
        rc, out, err = vlib.sh([fast, 'walkreplay', s or '0'], timeout=20)
        return out.startswith('FAIL')
    # shortest failing prefix first, then delta-debug chunks
    lo, hi = 1, len(states)
    while lo < hi:
        mid = (lo + hi) // 2
        if fails(states[:mid]): hi = mid
        else: lo = mid + 1
    s = states[:lo]
    chunk = max(1, len(s) // 2)
    while chunk >= 1:
        i = 0
        while i < len(s):
            t = s[:i] + s[i + chunk:]
            if t and fails(t): s = t
            else: i += chunk
        chunk //= 2
    return s


def run(ctx):
    rng = vlib.Rng(ctx.seed)
    pc.regen_units(ctx, ['Rotenc'])
    ctx.prove(['Librfn.Props.C19'], REQUIRED, allow_extra_axioms=lambda t, a: a.startswith('Librfn.C19.step_delta_components._native.bv_decide.ax'))
    exe, fast = pc.build(ctx, 'PURE_ROTENC')
    # translation validation: single steps, generated Lean vs compiled C
    calls = []
    for ls in range(4):
        for nx in range(4):
            for ic in (0, 1, 2, 3, 4, 1023, 1024, 1025, 0x7fff, 0x8000, 0xfffc, 0xfffd, 0xfffe, 0xffff):
                calls.append((ls, rng.below(65536) if rng.chance(1, 2) else (ic >> 2), ic, nx))
    for _ in range(1500 if ctx.tier == 'quick' else 20000):
        calls.append((rng.below(4), rng.below(65536), rng.below(65536), rng.below(4)))
    c_out, lean_out = pc.differential(ctx, exe, ['rotenc %d %d %d %d' % c for c in calls], 'pure-rotenc')
    for i, c in enumerate(calls):
        ctx.count(c)
        if lean_out is not None and (i >= len(lean_out) or i >= len(c_out) or lean_out[i] != c_out[i]):
            ctx.broken.append(f'tie T translation validation: rotenc step {c}: generated Lean = {lean_out[i] if i < len(lean_out) else None}, compiled C = {c_out[i] if i < len(c_out) else None}')
            break
    ctx.cov['traces_validated_against_impl'] = len(calls) if lean_out is not None else 0
    # spec-level walks on the real code (true unbounded position kept by the harness): always run, cheap
    nw, steps = (60, 300000) if ctx.tier == 'quick' else (1500, 400000)
    rc, out, err = vlib.sh([fast, 'walk', str(ctx.seed), str(nw), str(steps)], timeout=1500)
    m = re.search(r'FAIL walk (\w+) .*states=(\d+)', out)
    if m:
        s = shrink_walk(fast, m.group(2))
        rc2, out2, _ = vlib.sh([fast, 'walkreplay', s])
        ctx.violation({'obligation': 'decoder vs true position on a state sequence (' + m.group(1) + ')', 'states': s, 'observed': out2.strip(),
                       'how_to_rerun': f'pure_fast walkreplay {s}'}, key='walk:' + s)
    elif out.startswith('OK'):
        ctx.cov['walk_steps'] = int(out.split()[1])
        ctx.cov['evaluations'] += nw
    else:
        ctx.notes.append('walk run failed: ' + (out + err)[-300:])
        ctx.broken.append('rotenc walk harness crashed')
    if ctx.tier == 'thorough' or ctx.broken:
        fails, n = pc.sweep(ctx, fast, 'rotenc')
        ctx.cov['exhaustive_single_steps'] = n
        for f in fails[:1]:
            ctx.violation({'obligation': 'exhaustive single-step sweep (last state x latch x 16-bit position x next state)', 'failing_case': f}, key='sweep:' + f.split(' got=')[0])
    ctx.sample({'step (last,count,internal,next)': calls[0], 'C': c_out[0]})
    ctx.sample({'step (last,count,internal,next)': calls[-1], 'C': c_out[-1]})
    ctx.sample({'walks': nw, 'steps_each': steps, 'targets': 'wrap points of the 8-, 14-, 16-bit counters, both directions, bounce + invalid jumps'})
    ctx.cov['rule'] = 'single decode steps (all 16 from/to pairs x boundary positions, seeded random states) compared generated-Lean vs C; plus seeded walks on the real code against an unbounded reference position; distinct = distinct step tuple'
    ctx.assumptions.append(META['level_note'])


def replay(ctx, path):
    r = json.load(open(path))
    if 'states' not in r:
        print('replay names a broken obligation or sweep case:', r.get('obligation'), r.get('failing_case')); return 1
    _, fast = pc.build(ctx, 'PURE_ROTENC')
    rc, out, err = vlib.sh([fast, 'walkreplay', r['states']])
    print(out.strip())
    return 1 if out.startswith('FAIL') else 0

"""C20 — memory log holds the most recent 256 messages (tie D; kernel-only refinement proof)."""
import os, sys
import vlib
sys.path.insert(0, os.path.dirname(os.path.abspath(__file__)))

META = {
    'engine': 'lean-D',
    'technique': 'Lean 4 refinement proof (invariant by induction over all call histories, incl. the counter fold at 0x7fffffff) of a model of mlog.c; the model is tied to the C by translation (tools/c2lean2.py regenerates vmlog/vmlog_nice/mlog_clear/get_line/mlog_get_line/mlog_dump on every run; Props/C20Tie.lean proves them equal to the model on every state, Props/C20Gen.lean restates the property about the generated code) and by differential runs',
    'level_text': 'For every history of mlog/mlog_nice/mlog_clear/mlog_get_line(int)/mlog_dump of any length the model returns exactly the last min(n,256) messages oldest first, NULL for every other k incl. negative, '
                  'nice records iff fewer than 256 so far; the invariant is preserved by the fold of the counter so the 2^31 wrap is covered by proof, and exercised on the real code by placing the counter just below the fold.',
    'level_note': 'Trusted: Lean kernel (standard axioms; one bv_decide certificate axiom per *_generated* lemma of Props/C20Tie.lean, none in the C20 theorems themselves); tools/c2lean2.py + clang AST (tie T2: the static log as a 32-bit counter plus 8192 bytes of memory with the x86-64 layout of struct mlog_line, va_arg reads as inputs, strdup_printf/fprintf as the environment (the value fprintf returns is an input indexed by the iteration), the loop of mlog_dump a recursive definition tied by induction for all 256 lines; the variadic wrappers mlog/mlog_nice and the formatting are not translated); hand model of mlog.c validated each run against the real code (harness includes mlog.c; counter set near the fold through the included static); '
                  'printf formatting/va_arg are libc and not modelled (records are compared after formatting by the real code).',
    'design_ref': '§6 C20',
}
REQUIRED = ['Librfn.C20.history_refines', 'Librfn.C20.getLine_spec', 'Librfn.C20.dump_spec', 'Librfn.C20.inv_log', 'Librfn.C20.inv_logNice']
FOLD = 0x7fffffff


STRS = ['', 'a', 'hello', 'percent%sign and spaces']


def render(f, a, b, c):
    f %= 16
    if f < 8: return f'F{f} {a} {b} {c}'
    if f == 8: return 'L' + 'x' * 150 + f' {a} {b} {c}'
    if f == 9: return 'M' + 'x' * 121 + f'{a}'
    if f == 10: return 'W[' + str(b).rjust(a % 1100) + f']{c}'
    if f == 11: return f'P%|{a}|%{b}|{c}'
    if f == 12: return f'S {STRS[a % 4]} {b} {c}'
    if f == 13: return 'T' + STRS[b % 4][:a % 7] + f'|{c}'
    if f == 14: return ''
    return 'no conversions at all'


def spec(h):
    """independent oracle from the property text: list of messages since the last clear"""
    msgs, out = [], []
    for l in h:
        w = l.split()
        if w[0] == 'log':
            msgs.append(render(int(w[1]), int(w[2]), int(w[3]), int(w[4]))); out.append('ok')
        elif w[0] == 'nice':
            if len(msgs) < 256:
                msgs.append(render(int(w[1]), int(w[2]), int(w[3]), int(w[4])))
            out.append('ok')
        elif w[0] == 'clear':
            msgs = []; out.append('ok')
        elif w[0] == 'sethead':
            out.append('ok')     # state injection by the generator: abstractly a no-op (see gen)
        elif w[0] == 'get':
            k = int(w[1]); win = msgs[-256:]
            out.append(win[k] if 0 <= k < len(win) else 'NULL')
        elif w[0] == 'dump':
            out.append('dump:' + ''.join(msgs[-256:]))
    return out


def valid(h):
    """scope of the state injection: `sethead H` only on a log holding >= 256 messages, H >= 256, H < fold, H = n (mod 256)"""
    n = 0
    for l in h:
        w = l.split()
        if w[0] == 'log' or (w[0] == 'nice' and n < 256):
            n += 1
        elif w[0] == 'clear':
            n = 0
        elif w[0] == 'sethead':
            H = int(w[1])
            if n < 256 or H < 256 or H >= FOLD or (H - n) % 256:
                return False
    return True


def gen_history(rng, tier):
    h, n = [], 0
    def rec():
        if rng.chance(1, 8):
            # format 10 (star width) sized so that the formatted line has exactly L characters, L around the powers of two
            # a fixed-size line buffer anywhere between the log and the reader would have
            L = rng.choice([15, 16, 17, 31, 32, 33, 63, 64, 65, 127, 128, 129, 255, 256, 257, 511, 512, 513, 1023, 1024, 1025]) + rng.choice([0, 0, 0, -1, 1])
            b, c = rng.below(1000), rng.choice([0, 7, 255])
            return f'10 {L - 3 - len(str(c))} {b} {c}'
        return f'{rng.below(16) if rng.chance(1, 2) else rng.below(8)} {rng.choice([rng.below(1000), rng.below(13), 10 ** rng.below(8)])} {rng.below(1 << 32)} {rng.choice([0, 1, 255, 1 << 40, (1 << 64) - 1])}'
    def reads():
        ks = [0, 1, n - 1, n, 255, 256, 257, -1, -2, -256, 2147483647, -2147483648, min(n, 256) - 1, min(n, 256), rng.range(-300, 600)]
        for k in rng.shuffle(ks)[:rng.range(2, 8)]:
            h.append(f'get {k}')
        if rng.chance(1, 3):
            h.append('dump')
    shape = rng.below(6)
    bursts = rng.range(1, 4)
    for b in range(bursts):
        if shape <= 1:
            cnt = rng.range(0, 40)
        elif shape == 2:
            cnt = rng.choice([254, 255, 256, 257, 258, 511, 512, 513])
        else:
            cnt = rng.range(200, 800)
        for _ in range(cnt):
            kind = 'nice' if rng.chance(1, 4) else 'log'
            h.append(f'{kind} {rec()}')
            if kind == 'log' or n < 256:
                n += 1
            if rng.chance(1, 60):
                reads()
        # jump the counter to just below the fold: abstractly the same state after many more messages
        if shape >= 4 and n >= 256 and rng.chance(2, 3):
            target = FOLD - rng.range(1, 300)
            target -= (target - n) % 256           # keep head ≡ n (mod 256) so the abstraction relation holds
            h.append(f'sethead {target}')
            for _ in range(rng.range(1, 600)):
                h.append(f'log {rec()}'); n += 1
                if rng.chance(1, 40):
                    reads()
        reads()
        if rng.chance(1, 3):
            h.append('clear'); n = 0
            reads()
    return h


def harness(ctx):
    R = vlib.REPO
    common = [R + '/librfn/string.c', R + '/librfn/util.c', R + '/librfn/posix/time_posix.c']
    exe, log = ctx.cc('h_mlog', [os.path.join(vlib.VERIF, 'harness/h_mlog.c')] + common, ['-I' + R + '/librfn'] + ctx.FORKMAIN)
    if exe:
        return exe
    # the harness reaches into `struct mlog` (counter jump, zeroing): if that no longer compiles, use the public interface only
    exe, log2 = ctx.cc('h_mlog', [os.path.join(vlib.VERIF, 'harness/h_mlog.c'), R + '/librfn/mlog.c'] + common, ['-DVERIF_BLACKBOX'] + ctx.FORKMAIN)
    if not exe:
        raise vlib.Unbuildable('mlog harness does not compile against /repo: ' + log[-1500:])
    ctx.blackbox = True
    err = [l for l in log.split('\n') if 'error' in l][:2]
    ctx.broken.append('correspondence on internal state: the mlog harness no longer compiles against the log\'s data representation ('
                      + '; '.join(e.strip()[-160:] for e in err) + '); rebuilt against the public interface only (no counter jump to the 2^31 fold)')
    return exe


def run(ctx):
    rng = vlib.Rng(ctx.seed)
    import tie_common
    tie_common.prove(ctx, ['MlogSeq'], ['Librfn.Props.C20'], REQUIRED, 'Librfn.Props.C20Tie', 'Librfn.C20.Tie',
                     dependents=[('Librfn.Props.C20Gen', 'Librfn.C20.Gen')])
    exe = harness(ctx)
    nh = 40 if ctx.tier == 'quick' else 600
    hs = [gen_history(rng, ctx.tier) for _ in range(nh)]
    if ctx.blackbox:
        hs = [h for h in hs if not any(l.startswith('sethead') for l in h)]
    agreed = vlib.correspond(ctx, 'mlog', [exe], hs, spec=spec, valid=valid)
    for h in hs:
        ctx.count(tuple(h), nontrivial=any(l.startswith('get') or l == 'dump' for l in h))
    ctx.cov['traces_validated_against_impl'] = agreed
    ctx.cov['ops_total'] = sum(len(h) for h in hs)
    ctx.cov['histories_crossing_counter_fold'] = sum(1 for h in hs if any(l.startswith('sethead') for l in h))
    lens = {}
    for h in hs:
        for l in h:
            w = l.split()
            if w[0] in ('log', 'nice'):
                n = len(render(int(w[1]) & 15, int(w[2]), int(w[3]), int(w[4])))
                k = '<=32' if n <= 32 else '33-62' if n < 63 else str(n) if n <= 65 else '66-126' if n < 127 else str(n) if n <= 129 else '130-254' if n < 255 else str(n) if n <= 257 else '>257'
                lens[k] = lens.get(k, 0) + 1
    ctx.cov['formatted_line_lengths'] = lens
    ctx.cov['histories_over_256_messages'] = sum(1 for h in hs if sum(1 for l in h if l.startswith('log')) > 256)
    ctx.sample({'history_prefix': hs[0][:8], 'length': len(hs[0])})
    ctx.sample({'history_prefix': hs[-1][:8], 'length': len(hs[-1])})
    ctx.cov['rule'] = ('histories of log/nice/clear/get/dump bursts around 0/256/512 messages, optional jump of the counter to just below 0x7fffffff (kept congruent mod 256) '
                       'followed by logging across the fold; distinct = distinct op list; non-trivial = contains at least one read')
    ctx.assumptions.append(META['level_note'])


def replay(ctx, path):
    return vlib.replay_ops(ctx, path, 'mlog', [harness(ctx)], spec=spec)
